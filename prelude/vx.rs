// PRELUDE (trusted text unless marked PROVED).  Assumed contracts on `std`, on the wrapper functions
// introduced by the W-rules, and on external crates; plus bridging lemmas that are proved by Verus.
// Every `assume_specification`, `axiom`, `external_body` and `uninterp` in here is an assumption and
// is listed in every evidence file by the mechanical scan in vlib/scan.py.
pub mod vx {
use super::*;

// ------------------------------------------------------------------------------------------------
// byte offsets <-> character positions
pub open spec fn boff(s: Seq<char>, k: int) -> int { encode_utf8(s.take(k)).len() as int }

// ---- str::find with a predicate pattern
pub uninterp spec fn pat_matches<P>(p: P, c: char) -> bool;

#[verifier::allow(undeclared_external_trait)]
pub assume_specification<P: core::str::pattern::Pattern>[ str::find::<P> ](s: &str, p: P) -> (r: Option<usize>)
    ensures
        match r {
            None => forall|i: int| 0 <= i < s@.len() ==> !pat_matches(p, #[trigger] s@[i]),
            Some(pos) => exists|k: int| 0 <= k < s@.len() && pos as int == boff(s@, k) && pat_matches(p, s@[k])
                && forall|i: int| 0 <= i < k ==> !pat_matches(p, #[trigger] s@[i]),
        };

// a pattern that is a function matches c exactly when the function returns true on c
pub broadcast axiom fn axiom_pat_fn<F: Fn(char) -> bool>(f: F, c: char)
    ensures
        #[trigger] pat_matches(f, c) ==> call_ensures(f, (c,), true),
        !pat_matches(f, c) ==> call_ensures(f, (c,), false);

// ---- &s[range]: vstd ships the char-boundary precondition; this adds vstd's own postcondition
pub assume_specification<I: core::slice::SliceIndex<str>>[ <str as core::ops::Index<I>>::index ](s: &str, index: I) -> (r: &<I as core::slice::SliceIndex<str>>::Output)
    ensures index.index_postcondition(s, r);

pub broadcast axiom fn axiom_string_from_str(v: &str)
    ensures (#[trigger] <String as FromSpec<&str>>::from_spec(v))@ == v@;

pub broadcast axiom fn axiom_str_len_bound(s: &str)
    ensures #[trigger] s.spec_bytes().len() <= isize::MAX;

// PROVED: every character takes at least one byte, so a str has at most isize::MAX characters
pub proof fn lemma_chars_le_bytes(s: Seq<char>)
    ensures s.len() <= encode_utf8(s).len()
    decreases s.len()
{
    if s.len() > 0 {
        let q = s.drop_last();
        lemma_chars_le_bytes(q);
        encode_utf8_concat(q, seq![s.last()]);
        assert(q + seq![s.last()] =~= s);
        assert(encode_utf8(seq![s.last()]).len() >= 1) by {
            if encode_utf8(seq![s.last()]).len() == 0 {
                assert(encode_utf8(seq![s.last()]) =~= Seq::<u8>::empty());
                assert(encode_utf8(Seq::<char>::empty()) =~= Seq::<u8>::empty());
                encode_utf8_decode_utf8(seq![s.last()]);
                encode_utf8_decode_utf8(Seq::<char>::empty());
            }
        }
    }
}
pub broadcast proof fn axiom_str_chars_bound(s: &str)
    ensures #[trigger] s@.len() <= isize::MAX
{
    lemma_chars_le_bytes(s@);
    axiom_str_len_bound(s);
    assert(s.spec_bytes() == encode_utf8(s@));
}

pub broadcast axiom fn axiom_cow_from_string<'a>(v: String)
    ensures (#[trigger] <Cow<'a, str> as FromSpec<String>>::from_spec(v))@ == v@;

pub broadcast axiom fn axiom_cow_from_str<'a>(v: &'a str)
    ensures (#[trigger] <Cow<'a, str> as FromSpec<&'a str>>::from_spec(v))@ == v@;

pub broadcast axiom fn axiom_cow_from_cow<'a>(v: Cow<'a, str>)
    ensures (#[trigger] <Cow<'a, str> as FromSpec<Cow<'a, str>>>::from_spec(v)) == v;

pub axiom fn std_facts()
    ensures
        <String as vstd::std_specs::cmp::PartialEqSpec<String>>::obeys_eq_spec(),
        <Cow<'static, str> as FromSpec<Cow<'static, str>>>::obeys_from_spec(),
        <String as FromSpec<&str>>::obeys_from_spec(),
        <Cow<'static, str> as FromSpec<String>>::obeys_from_spec(),
        <Cow<'static, str> as FromSpec<&'static str>>::obeys_from_spec();

// ---- Cow<str>
pub uninterp spec fn cow_deref_post<'a, B: ?Sized + ToOwned>(c: &Cow<'a, B>, r: &B) -> bool;

#[verifier::allow(undeclared_external_trait)]
pub assume_specification<'a, 'b, B: ?Sized + ToOwned>[ <Cow<'a, B> as core::ops::Deref>::deref ](c: &'b Cow<'a, B>) -> (r: &'b B)
    ensures cow_deref_post(c, r);

pub broadcast axiom fn axiom_cow_str_deref<'a>(c: &Cow<'a, str>, r: &str)
    ensures #[trigger] cow_deref_post::<str>(c, r) ==> r@ == c@;

pub uninterp spec fn cow_eq_post<'a, 'b, B: ?Sized + ToOwned, C: ?Sized + ToOwned>(a: &Cow<'a, B>, b: &Cow<'b, C>, r: bool) -> bool;
#[verifier::allow(undeclared_external_trait)]
pub assume_specification<'a, 'b, B: ?Sized + PartialEq<C> + ToOwned, C: ?Sized + ToOwned>[ <Cow<'a, B> as PartialEq<Cow<'b, C>>>::eq ](a: &Cow<'a, B>, b: &Cow<'b, C>) -> (r: bool)
    ensures cow_eq_post(a, b, r);
pub broadcast axiom fn axiom_cow_str_eq<'a, 'b>(a: &Cow<'a, str>, b: &Cow<'b, str>, r: bool)
    ensures #[trigger] cow_eq_post::<str, str>(a, b, r) ==> r == (a@ == b@);

pub uninterp spec fn cow_into_owned_post<'a, B: ?Sized + ToOwned>(c: Cow<'a, B>, r: <B as ToOwned>::Owned) -> bool;
#[verifier::allow(undeclared_external_trait)]
pub assume_specification<'a, B: ?Sized + ToOwned>[ Cow::<'a, B>::into_owned ](c: Cow<'a, B>) -> (r: <B as ToOwned>::Owned)
    ensures cow_into_owned_post(c, r);
pub broadcast axiom fn axiom_cow_str_into_owned<'a>(c: Cow<'a, str>, r: String)
    ensures #[trigger] cow_into_owned_post::<str>(c, r) ==> r@ == c@;

// ---- String
pub assume_specification[ String::reserve ](s: &mut String, additional: usize)
    ensures final(s)@ == old(s)@;

pub assume_specification[ String::len ](s: &String) -> (r: usize)
    ensures r as int == encode_utf8(s@).len();

// ---- PROVED bridging lemmas (vstd UTF-8 theory)
pub proof fn lemma_boff(s: Seq<char>, k: int)
    requires 0 <= k <= s.len()
    ensures
        0 <= boff(s, k) <= encode_utf8(s).len(),
        is_char_boundary(encode_utf8(s), boff(s, k)),
        is_char_boundary(encode_utf8(s), 0),
        is_char_boundary(encode_utf8(s), encode_utf8(s).len() as int),
        encode_utf8(s).subrange(0, boff(s, k)) == encode_utf8(s.take(k)),
        encode_utf8(s).subrange(boff(s, k), encode_utf8(s).len() as int) == encode_utf8(s.skip(k)),
{
    let a = s.take(k);
    let b = s.skip(k);
    assert(s == a + b);
    encode_utf8_concat(a, b);
    let ba = encode_utf8(a);
    let bb = encode_utf8(b);
    let bs = encode_utf8(s);
    assert(bs == ba + bb);
    assert(bs.subrange(0, ba.len() as int) == ba);
    assert(bs.subrange(ba.len() as int, bs.len() as int) == bb);
    encode_utf8_valid_utf8(s);
    encode_utf8_valid_utf8(b);
    is_char_boundary_start_end_of_seq(bs);
    if bb.len() == 0 {
        is_char_boundary_start_end_of_seq(bs);
    } else {
        is_char_boundary_start_end_of_seq(bb);
        is_char_boundary_iff_is_leading_byte(bb, 0);
        is_char_boundary_iff_is_leading_byte(bs, ba.len() as int);
        assert(bs[ba.len() as int] == bb[0]);
    }
}

pub proof fn lemma_encode_inj(a: Seq<char>, b: Seq<char>)
    requires encode_utf8(a) == encode_utf8(b)
    ensures a == b
{
    encode_utf8_decode_utf8(a);
    encode_utf8_decode_utf8(b);
}

pub broadcast proof fn lemma_slice_to_view(s: &str, r: &str, pos: usize, k: int)
    requires
        0 <= k <= s@.len(),
        pos as int == #[trigger] boff(s@, k),
        #[trigger] str_slice_index_postcondition(&(..pos), s.spec_bytes(), r.spec_bytes()),
    ensures
        r@ == s@.take(k),
{
    lemma_boff(s@, k);
    lemma_encode_inj(r@, s@.take(k));
}

pub broadcast proof fn lemma_slice_from_view(s: &str, r: &str, pos: usize, k: int)
    requires
        0 <= k <= s@.len(),
        pos as int == #[trigger] boff(s@, k),
        #[trigger] str_slice_index_postcondition(&(pos..), s.spec_bytes(), r.spec_bytes()),
    ensures
        r@ == s@.skip(k),
{
    lemma_boff(s@, k);
    lemma_encode_inj(r@, s@.skip(k));
}

// ------------------------------------------------------------------------------------------------
// W-rule wrappers: the body of each wrapper IS the expression it replaces in the repository text.

// W.char_indices: `label.char_indices()`
#[verifier::external_body]
pub struct VxCharIndices<'a>(core::str::CharIndices<'a>);
impl<'a> Iterator for VxCharIndices<'a> {
    type Item = (usize, char);
    #[verifier::external_body]
    fn next(&mut self) -> Option<(usize, char)> { self.0.next() }
}
impl<'a> IteratorSpecImpl for VxCharIndices<'a> {
    open spec fn obeys_prophetic_iter_laws(&self) -> bool { true }
    #[verifier::prophetic]
    uninterp spec fn remaining(&self) -> Seq<(usize, char)>;
    #[verifier::prophetic]
    uninterp spec fn will_return_none(&self) -> bool;
    uninterp spec fn decrease(&self) -> Option<nat>;
    open spec fn peek(&self, index: int) -> Option<(usize, char)> { None }
}
pub open spec fn char_indices_seq(s: Seq<char>) -> Seq<(usize, char)> {
    Seq::new(s.len(), |i: int| (boff(s, i) as usize, s[i]))
}
#[verifier::external_body]
pub fn vx_char_indices<'a>(s: &'a str) -> (r: VxCharIndices<'a>)
    ensures
        IteratorSpec::remaining(&r) == char_indices_seq(s@),
        IteratorSpec::decrease(&r) is Some,
{ VxCharIndices(s.char_indices()) }

// W.enumerate: `x.chars().enumerate()`
#[verifier::external_body]
pub struct VxEnumerate<'a>(core::iter::Enumerate<core::str::Chars<'a>>);
impl<'a> Iterator for VxEnumerate<'a> {
    type Item = (usize, char);
    #[verifier::external_body]
    fn next(&mut self) -> Option<(usize, char)> { self.0.next() }
}
impl<'a> IteratorSpecImpl for VxEnumerate<'a> {
    open spec fn obeys_prophetic_iter_laws(&self) -> bool { true }
    #[verifier::prophetic]
    uninterp spec fn remaining(&self) -> Seq<(usize, char)>;
    #[verifier::prophetic]
    uninterp spec fn will_return_none(&self) -> bool;
    uninterp spec fn decrease(&self) -> Option<nat>;
    open spec fn peek(&self, index: int) -> Option<(usize, char)> { None }
}
pub open spec fn enumerate_seq(s: Seq<char>) -> Seq<(usize, char)> {
    Seq::new(s.len(), |i: int| (i as usize, s[i]))
}
#[verifier::external_body]
pub fn vx_enumerate<'a>(it: core::str::Chars<'a>) -> (r: VxEnumerate<'a>)
    ensures
        IteratorSpec::remaining(&r) == enumerate_seq(IteratorSpec::remaining(&it)),
        IteratorSpec::decrease(&r) is Some,
{ VxEnumerate(it.enumerate()) }

// W.ends_with: `res.ends_with(c)` on a String with a char pattern
#[verifier::external_body]
pub fn vx_string_ends_with_char(s: &String, c: char) -> (r: bool)
    ensures r == (s@.len() > 0 && s@.last() == c)
{ s.ends_with(c) }

// W.nth: `s.chars().nth(n)`
#[verifier::external_body]
pub fn vx_chars_nth(s: &str, n: usize) -> (r: Option<char>)
    ensures r == (if (n as int) < s@.len() { Some(s@[n as int]) } else { None::<char> })
{ s.chars().nth(n) }

// W.to_string: `c.to_string()` for a char
#[verifier::external_body]
pub fn vx_char_to_string(c: char) -> (r: String)
    ensures r@ == seq![c]
{ c.to_string() }

// String == String is equality of contents
pub broadcast axiom fn axiom_string_eq(a: &String, b: &String)
    ensures #[trigger] <String as vstd::std_specs::cmp::PartialEqSpec<String>>::eq_spec(a, b) == (a@ == b@);

// W.count: `s.chars().count()`
#[verifier::external_body]
pub fn vx_chars_count(s: &str) -> (r: usize)
    ensures r == s@.len()
{ s.chars().count() }

// W.as_ref: `label.as_ref()` for S: AsRef<str>.  Assumes AsRef<str> implementations are pure:
// the same value always yields a str with the same content.
pub uninterp spec fn as_ref_view<S: ?Sized>(s: &S) -> Seq<char>;
#[verifier::external_body]
pub fn vx_as_ref_str<'b, S: AsRef<str> + ?Sized>(s: &'b S) -> (r: &'b str)
    ensures r@ == as_ref_view(s)
{ s.as_ref() }
pub broadcast axiom fn axiom_as_ref_str(s: &str)
    ensures #[trigger] as_ref_view::<str>(s) == s@;
pub broadcast axiom fn axiom_as_ref_ref_str(s: &&str)
    ensures #[trigger] as_ref_view::<&str>(s) == (*s)@;
pub broadcast axiom fn axiom_as_ref_cow<'a>(s: &Cow<'a, str>)
    ensures #[trigger] as_ref_view::<Cow<'a, str>>(s) == s@;
pub broadcast axiom fn axiom_as_ref_ref_cow<'a, 'b>(s: &&'b Cow<'a, str>)
    ensures #[trigger] as_ref_view::<&'b Cow<'a, str>>(s) == (**s)@;


// W.into_iter: `for c in it` over a caller-supplied `I: IntoIterator<Item = char>`
#[verifier::external_body]
#[verifier::reject_recursive_types(T)]
pub struct VxIter<T: Iterator<Item = char>>(T);
impl<T: Iterator<Item = char>> Iterator for VxIter<T> {
    type Item = char;
    #[verifier::external_body]
    fn next(&mut self) -> Option<char> { self.0.next() }
}
impl<T: Iterator<Item = char>> IteratorSpecImpl for VxIter<T> {
    open spec fn obeys_prophetic_iter_laws(&self) -> bool { true }
    #[verifier::prophetic]
    uninterp spec fn remaining(&self) -> Seq<char>;
    #[verifier::prophetic]
    uninterp spec fn will_return_none(&self) -> bool;
    uninterp spec fn decrease(&self) -> Option<nat>;
    open spec fn peek(&self, index: int) -> Option<char> { None }
}
// the characters an IntoIterator value will yield
pub uninterp spec fn iter_seq<I>(it: I) -> Seq<char>;
#[verifier::external_body]
pub fn vx_into_iter<I: IntoIterator<Item = char>>(it: I) -> (r: VxIter<I::IntoIter>)
    ensures
        IteratorSpec::remaining(&r) == iter_seq(it),
        IteratorSpec::decrease(&r) is Some,
{ VxIter(it.into_iter()) }
// for a `Chars` iterator these are the characters not yet consumed
pub broadcast axiom fn axiom_iter_seq_chars<'a>(it: core::str::Chars<'a>)
    ensures #[trigger] iter_seq::<core::str::Chars<'a>>(it) == IteratorSpec::remaining(&it);

// ---- small std functions without a vstd specification
pub assume_specification[ char::from_u32 ](i: u32) -> (r: Option<char>)
    ensures r == (if i <= 0xD7FF || (0xE000 <= i && i <= 0x10FFFF) { Some(i as char) } else { None::<char> });

pub assume_specification[ char::to_ascii_lowercase ](c: &char) -> (r: char)
    ensures r == (if 'A' <= *c && *c <= 'Z' { ((*c as u8) + 32) as char } else { *c });

pub assume_specification[ char::is_ascii ](c: &char) -> (r: bool)
    ensures r == ((*c as u32) <= 0x7f);

pub assume_specification<T>[ bool::then_some ](b: bool, t: T) -> (r: Option<T>)
    ensures r == (if b { Some(t) } else { None::<T> });

// ------------------------------------------------------------------------------------------------
// external crates and std Unicode tables as uninterpreted functions
pub uninterp spec fn spec_nfc(s: Seq<char>) -> Seq<char>;
pub uninterp spec fn spec_nfkc(s: Seq<char>) -> Seq<char>;
pub uninterp spec fn spec_lower(c: char) -> Seq<char>;
pub uninterp spec fn spec_is_lower(c: char) -> bool;

// W.push_lowercase: `c.to_lowercase().for_each(|x| res.push(x))`
#[verifier::external_body]
pub fn vx_push_lowercase(res: &mut String, c: char)
    ensures final(res)@ == old(res)@ + spec_lower(c)
{ c.to_lowercase().for_each(|x| res.push(x)) }

#[verifier::external_body]
pub fn vx_char_is_lowercase(c: char) -> (r: bool)
    ensures r == spec_is_lower(c)
{ c.is_lowercase() }

// unicode_normalization: is_nfc / nfc().collect() etc. through wrappers
#[verifier::external_body]
pub fn vx_is_nfc(s: &str) -> (r: bool)
    ensures r ==> spec_nfc(s@) == s@
{ unimplemented!() /* unicode_normalization::is_nfc(s) */ }
#[verifier::external_body]
pub fn vx_is_nfkc(s: &str) -> (r: bool)
    ensures r ==> spec_nfkc(s@) == s@
{ unimplemented!() /* unicode_normalization::is_nfkc(s) */ }
#[verifier::external_body]
pub fn vx_nfc_collect(s: &str) -> (r: String)
    ensures r@ == spec_nfc(s@)
{ unimplemented!() /* s.nfc().collect::<String>() */ }
#[verifier::external_body]
pub fn vx_nfkc_collect(s: &str) -> (r: String)
    ensures r@ == spec_nfkc(s@)
{ unimplemented!() /* s.nfkc().collect::<String>() */ }


// `unicode_normalization::NAME(` is rewritten to `crate::vx::un::NAME(` (W.un): the two functions the library uses carry
// the assumed contract, every other name of the crate is present with NO contract
pub mod un {
    use super::*;
    #[verifier::external_body]
    pub fn is_nfc(s: &str) -> (r: bool) ensures r ==> spec_nfc(s@) == s@ { unimplemented!() }
    #[verifier::external_body]
    pub fn is_nfkc(s: &str) -> (r: bool) ensures r ==> spec_nfkc(s@) == s@ { unimplemented!() }
    #[verifier::external_body]
    pub fn is_nfd(s: &str) -> bool { unimplemented!() }
    #[verifier::external_body]
    pub fn is_nfkd(s: &str) -> bool { unimplemented!() }
    pub use super::{is_nfc_quick, is_nfkc_quick, is_nfd_quick, IsNormalized};
}

// names of the unicode-normalization crate that a change may start to use: present with NO contract (any result),
// so that such code still reaches the verifier and fails the obligations it can no longer meet
#[derive(PartialEq, Eq, Clone, Copy, Debug)]
pub enum IsNormalized { Yes, No, Maybe }
#[verifier::external_body]
pub fn is_nfc_quick<I: Iterator<Item = char>>(s: I) -> IsNormalized { unimplemented!() }
#[verifier::external_body]
pub fn is_nfkc_quick<I: Iterator<Item = char>>(s: I) -> IsNormalized { unimplemented!() }
#[verifier::external_body]
pub fn is_nfd_quick<I: Iterator<Item = char>>(s: I) -> IsNormalized { unimplemented!() }
pub assume_specification[ <IsNormalized as PartialEq>::eq ](a: &IsNormalized, b: &IsNormalized) -> (r: bool) ensures r == (*a == *b);

} // mod vx
