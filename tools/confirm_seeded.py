#!/usr/bin/env python3
"""Independently confirm a mutation delivered by a sub-agent, in a scratch worktree of /repo:
  1. with the patch the workspace builds and the whole existing suite passes;
  2. the demonstration FAILS with the patch;
  3. the demonstration PASSES without the patch.
Then store it as /verif/seeded/<id>/{patch.diff, demo.rs, meta.json}.
usage: confirm_seeded.py <outdir e.g. /tmp/wt/C12.out> <k> <property>"""
import json
import os
import re
import shutil
import subprocess
import sys

VERIF = os.path.dirname(os.path.dirname(os.path.abspath(__file__)))
WT = '/tmp/wt/confirm'
ENV = dict(os.environ, CARGO_TARGET_DIR='/tmp/wt/confirm-target', CARGO_NET_OFFLINE='true')


def sh(cmd, cwd=WT, timeout=3000):
    p = subprocess.run(cmd, cwd=cwd, env=ENV, shell=isinstance(cmd, str), stdout=subprocess.PIPE, stderr=subprocess.STDOUT, timeout=timeout)
    return p.returncode, p.stdout.decode('utf-8', 'replace')


def main():
    outdir, k, pid = sys.argv[1], sys.argv[2], sys.argv[3]
    patch = os.path.join(outdir, 'patch%s.diff' % k)
    demo = os.path.join(outdir, 'demo%s.rs' % k)
    meta_txt = os.path.join(outdir, 'meta%s.txt' % k)
    if not os.path.isdir(WT):
        subprocess.run(['git', '-C', '/repo', 'worktree', 'add', '-q', '--detach', WT, 'HEAD'], check=True)
    sh('git checkout -q --detach %s && git checkout -- . && git clean -fdq' % subprocess.check_output(['git', '-C', '/repo', 'rev-parse', 'HEAD']).decode().strip())
    first = open(demo, encoding='utf-8').readline()
    mo = re.search(r'(precis-[a-z]+/tests/[\w]+\.rs)', first)
    if not mo:
        print('cannot find demo placement in first line:', first)
        return 2
    place = mo.group(1)
    crate = place.split('/')[0]
    test = os.path.basename(place)[:-3]
    res = dict(id='%s-%s' % (pid, k), property=pid)
    rc, out = sh(['git', 'apply', patch])
    if rc != 0:
        print('patch does not apply to current HEAD:', out[-500:])
        return 2
    rc, out = sh('cargo test --workspace --offline 2>&1')
    fails = re.findall(r'test result: FAILED', out)
    res['suite_with_patch'] = 'passes' if rc == 0 and not fails else 'FAILS'
    os.makedirs(os.path.dirname(os.path.join(WT, place)), exist_ok=True)
    shutil.copy(demo, os.path.join(WT, place))
    rc1, out1 = sh('cargo test --offline -p %s --test %s 2>&1' % (crate, test))
    res['demo_with_patch'] = 'fails' if rc1 != 0 else 'PASSES'
    sh(['git', 'apply', '-R', patch])
    rc2, out2 = sh('cargo test --offline -p %s --test %s 2>&1' % (crate, test))
    res['demo_without_patch'] = 'passes' if rc2 == 0 else 'FAILS'
    os.remove(os.path.join(WT, place))
    sh('git checkout -- . && git clean -fdq')
    ok = res['suite_with_patch'] == 'passes' and res['demo_with_patch'] == 'fails' and res['demo_without_patch'] == 'passes'
    res['confirmed'] = ok
    print(json.dumps(res))
    if ok:
        d = os.path.join(VERIF, 'seeded', '%s-%s' % (pid, k))
        os.makedirs(d, exist_ok=True)
        shutil.copy(patch, os.path.join(d, 'patch.diff'))
        shutil.copy(demo, os.path.join(d, 'demo.rs'))
        meta = dict(id='%s-%s' % (pid, k), breaks_property=pid,
                    description=open(meta_txt, encoding='utf-8').read() if os.path.exists(meta_txt) else '',
                    demo_placement=place,
                    confirmed_by='tools/confirm_seeded.py in scratch worktree /tmp/wt/confirm of /repo HEAD',
                    ran=['git apply patch.diff; cargo test --workspace --offline  -> suite passes',
                         'cargo test --offline -p %s --test %s  (with patch) -> fails' % (crate, test),
                         'git apply -R patch.diff; same command -> passes'],
                    result=res)
        with open(os.path.join(d, 'meta.json'), 'w') as f:
            json.dump(meta, f, indent=1)
    return 0 if ok else 1


if __name__ == '__main__':
    sys.exit(main())
