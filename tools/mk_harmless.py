#!/usr/bin/env python3
"""Behaviour-preserving edits of sancane/precis (renamed locals, reordered independent statements, comments, equivalent
loop bounds).  The checks must NOT raise an alarm on them: exit 0, or exit 2 (undecided), never VIOLATION.
Writes /verif/seeded/harmless/<name>.diff ; run them with tools/run_seeded.py --harmless."""
import os
import re
import shutil
import subprocess
import tempfile

VERIF = os.path.dirname(os.path.dirname(os.path.abspath(__file__)))
OUT = os.path.join(VERIF, 'seeded', 'harmless')


def main():
    tmp = tempfile.mkdtemp(prefix='verif-harmless-')
    base = os.path.join(tmp, 'base')
    os.makedirs(base)
    subprocess.run('git -C /repo archive HEAD | tar -x -C "%s"' % base, shell=True, check=True)
    os.makedirs(OUT, exist_ok=True)

    def mk(name, rel, fn):
        d = os.path.join(tmp, 'w')
        shutil.rmtree(d, ignore_errors=True)
        shutil.copytree(base, d)
        p = os.path.join(d, rel)
        s = open(p).read()
        s2 = fn(s)
        assert s2 != s, name
        open(p, 'w').write(s2)
        out = subprocess.run(['diff', '-u', '--label', 'a/' + rel, '--label', 'b/' + rel, os.path.join(base, rel), p],
                             capture_output=True, text=True).stdout
        open(os.path.join(OUT, name + '.diff'), 'w').write(out)

    def h1(s):
        a = s.index('fn trim_spaces')
        b = s.index('/// [`Nickname`]', a)
        return s[:a] + re.sub(r'\bres\b', 'out', s[a:b]) + s[b:]
    mk('H01_C12_rename_res', 'precis-profiles/src/nicknames.rs', h1)
    mk('H02_C12_swap_stmts', 'precis-profiles/src/nicknames.rs', lambda s: s.replace(
        "                    prev_space = false;\n                    begin = false;\n                    continue;",
        "                    begin = false;\n                    prev_space = false;\n                    continue;"))
    mk('H03_C03_named_result', 'precis-core/src/context.rs', lambda s: s.replace(
        "    Ok(prev as u32 == 0x006c && next as u32 == 0x006c)",
        "    let both = prev as u32 == 0x006c && next as u32 == 0x006c;\n    Ok(both)"))
    mk('H04_C04_rename_var', 'precis-profiles/src/usernames.rs', lambda s: s.replace(
        "        let s = self.prepare(s)?;\n        let s = self.case_mapping_rule(s)?;",
        "        let prepared = self.prepare(s)?;\n        let s = self.case_mapping_rule(prepared)?;"))
    mk('H05_C02_extra_binding', 'precis-core/src/stringclasses.rs', lambda s: s.replace(
        "            let val = self.get_value_from_char(c);\n\n            match val {",
        "            let value = self.get_value_from_char(c);\n            let val = value;\n\n            match val {"))
    mk('H06_C09_comment_and_blank', 'precis-profiles/src/bidi.rs', lambda s: s.replace(
        "    let mut prev = prev;\n    let mut nsm = false;\n    let mut en = false;",
        "    // state of the scan\n    let mut prev = prev;\n\n    let mut nsm = false;\n    let mut en = false;"))
    mk('H07_C13_range_form', 'precis-core/src/profile.rs', lambda s: s.replace("for _i in 0..=3 {", "for _i in 0..4 {"))
    mk('H08_C05_local_const', 'precis-profiles/src/passwords.rs', lambda s: s.replace(
        "                for c in s[pos..].chars() {\n                    if common::is_non_ascii_space(c) {\n                        res.push(common::SPACE);",
        "                let space = common::SPACE;\n                for c in s[pos..].chars() {\n                    if common::is_non_ascii_space(c) {\n                        res.push(space);"))
    mk('H09_C15_comment', 'precis-tools/src/common.rs', lambda s: s.replace(
        "    let mut range: Option<CodepointRange> = None;\n\n    for cp in vec.iter() {",
        "    // pending run\n    let mut range: Option<CodepointRange> = None;\n\n    for cp in vec.iter() {"))
    mk('H10_C10_negated_branch', 'precis-profiles/src/common.rs', lambda s: s.replace(
        "                if c.is_lowercase() {\n                    res.push(c);\n                } else {\n                    c.to_lowercase().for_each(|x| res.push(x));\n                }",
        "                if !c.is_lowercase() {\n                    c.to_lowercase().for_each(|x| res.push(x));\n                } else {\n                    res.push(c);\n                }"))
    mk('H11_C11_match_to_if_let', 'precis-profiles/src/usernames.rs', lambda s: s.replace(
        "fn has_width_mapping(c: char) -> bool {\n    get_decomposition_mapping(c as u32).is_some()\n}",
        "fn has_width_mapping(c: char) -> bool {\n    let cp = c as u32;\n    get_decomposition_mapping(cp).is_some()\n}"))
    mk('H12_C06_reorder_fns', 'precis-profiles/src/nicknames.rs', lambda s: s.replace(
        "        let s = self.apply_prepare_rules(s)?;\n        let s = self.additional_mapping_rule(s)?;\n        let s = self.normalization_rule(s)?;\n        (!s.is_empty()).then_some(s).ok_or(Error::Invalid)",
        "        let checked = self.apply_prepare_rules(s)?;\n        let mapped = self.additional_mapping_rule(checked)?;\n        let s = self.normalization_rule(mapped)?;\n        (!s.is_empty()).then_some(s).ok_or(Error::Invalid)"))
    shutil.rmtree(tmp, ignore_errors=True)
    print(sorted(os.listdir(OUT)))


if __name__ == '__main__':
    main()
