#!/usr/bin/env python3
"""Prompt for a fresh sub-agent that seeds property-breaking changes.  The agent gets ONLY the text of one property and
its own scratch worktree of /repo (outside /repo and /verif); nothing from /verif.
usage: agent_prompt.py <property id> <worktree dir> <out dir> <k1> <k2>"""
import glob
import json
import os
import sys

VERIF = os.path.dirname(os.path.dirname(os.path.abspath(__file__)))
pid, wt, out, k1, k2 = sys.argv[1:6]
prop = None
for l in open(os.path.join(VERIF, 'properties.jsonl')):
    d = json.loads(l)
    if d['id'] == pid:
        prop = d
text = 'id: %s\ntitle: %s\nstatement: %s\nquantifier: %s\nwhy tests cannot settle it: %s\nanchors: %s\n' % (
    prop['id'], prop['title'], prop['statement'], prop['quantifier']['text'], prop['why_tests_cant'],
    json.dumps(prop['anchors'], ensure_ascii=False))
prev = ''
for f in sorted(glob.glob(os.path.join(VERIF, 'seeded', pid + '-*', 'meta.json'))):
    prev += '- ' + ' '.join(json.load(open(f))['description'].split())[:300] + '\n'
print(f"""You are testing how robust a Rust library is against subtle regressions. The library is sancane/precis
(Rust implementation of the PRECIS framework, RFC 8264/8265/8266: crates precis-core, precis-profiles, precis-tools).
A git worktree of it is at {wt} (work ONLY there; never touch /repo or /verif; do not read anything under /verif).
Build and test offline:  cd {wt} && CARGO_TARGET_DIR={wt}/target cargo test --workspace --offline

Here is a semantic property the library is supposed to satisfy:

{text}
Your task: produce TWO different, independent source changes to the library (each a small, realistic edit such as a
maintainer might make by mistake: a changed condition or constant, an off-by-one, two swapped or dropped steps, a wrong
variable, a boundary case handled differently, an edit at two cooperating sites that each look fine alone) such that, for each change:
  1. the workspace still compiles and the ENTIRE existing test suite (command above) still passes with the change applied;
  2. the change BREAKS the property above;
  3. the breakage needs something specific to manifest (an unusual input, a particular position/length/combination,
     a multi-step sequence, or two cooperating sites) - NOT something ordinary use would expose at once;
  4. you have a demonstration: a small Rust integration test file (to be placed in the relevant crate's tests/ directory,
     e.g. precis-profiles/tests/demo_{pid}_{k1}.rs, using only the public API; for precis-tools generators drive the public generator
     API on small input files written to a temp dir) that FAILS with the change and PASSES without it. Verify both directions by running it.
Only modify files under precis-core/src, precis-profiles/src, precis-tools/src or the crates' build.rs (not the tests, not resources, not Cargo files).
Prefer minimal edits that keep the structure of the code (same loops, same calls, same statements - e.g. a changed operator,
constant, bound, argument, variable, match arm or order of two statements) over rewrites that introduce new library calls or restructure a function.
{('These ideas were already used by someone else - do something clearly different (different function or different kind of mistake):' + chr(10) + prev) if prev else ''}
Deliverables, for change k in {{{k1},{k2}}}, written to {out}/:
  - patch{{k}}.diff : `git diff` of the library change only (without the demo test), relative to the worktree's HEAD, applicable with `git apply`
  - demo{{k}}.rs    : the demonstration test file, with in its FIRST comment line the path where it must be placed (e.g. `// Place at: precis-profiles/tests/demo_{pid}_{k1}.rs`) and the exact cargo command to run it
  - meta{{k}}.txt   : 5-10 lines: what the change is, why it breaks the property, what is needed for it to manifest, what you ran and observed (with and without the change)
Leave the worktree clean at the end (git checkout -- . ; remove untracked demo files), but keep {out}.
Report briefly what you produced. Do not commit anything.""")
