#!/usr/bin/env python3
"""Writes /verif/MANIFEST.json from the table below and validates it against the schema."""
import json
import os

VERIF = os.path.dirname(os.path.dirname(os.path.abspath(__file__)))

TECH_V = 'contract-based deductive verification: Verus (SMT) on the mechanically extracted real functions'
TECH_K = 'contract-based deductive verification: Kani/CBMC complete per-code-point harnesses on the real crate'
TECH_VK = TECH_V + ' + Kani/CBMC complete per-code-point harnesses for the table lemmas it assumes'

CLAIMS = {
    'C01': dict(tech=TECH_VK, ref='4 C01',
                text='Panic freedom and termination of every extracted function as Verus built-in obligations (arithmetic overflow, slice-on-char-boundary, unwrap, decreases) for all strings/positions; partial_cmp totality and scalar width values by Kani over all u32.',
                note='std/vstd glue contracts in prelude/vx.rs; unicode-normalization and char::to_lowercase assumed not to panic; table lookups themselves are checked by Kani for all u32 (unwinding assertions on); has_compat is verified with its real body; get_*_profile()/lazy_static not covered (exercised only by the bounded native run, labelled so).'),
    'C02': dict(tech=TECH_VK, ref='4 C02',
                text='StringClass::allows (generic trait default method, any user class) proved equal to "result of the first unacceptable position" with code-point positions; dispatch to the registered rule with same label/offset; registry total for contextual code points by Kani over all u32.',
                note='AsRef<str> purity; function-pointer call modelled by vx_call_rule (behaves as the registered rule, identity of the pointer proved by Kani).'),
    'C03': dict(tech=TECH_VK, ref='4 C03',
                text='Each of the nine rule functions proved equal to its RFC 5892 Appendix A spec for all labels and all usize positions (incl. transparent-run scans of any length, regexp reading as lemma); ten membership tables and the registry proved against the raw UCD 6.3.0 files / RFC code point lists by Kani for all u32.',
                note='independent UCD oracle parser trusted; table predicates are uninterpreted on the Verus side and tied to the real tables by the Kani ledger.'),
    'C04': dict(tech=TECH_VK, ref='4 C04',
                text='prepare/enforce of both username profiles proved equal to the composition width -> non-empty -> IdentifierClass -> [lowercase] -> NFC -> non-empty -> directionality as a function of the input contents, errors included.',
                note='NFC is the uninterpreted spec_nfc; directionality is the implemented language (finding F5 is carried by C09); the rule contracts of C02/C09/C10/C11 count for this property (DEPS), width table and lowercase trigger by Kani, per-code-point X lemmas width_cp / lower_cp.'),
    'C05': dict(tech=TECH_VK, ref='4 C05',
                text='OpaqueString prepare/enforce/additional_mapping_rule proved against the RFC 8265 4.2 pipeline; space mapping equals a per-character map for every position of the first mapped space; Zs table by Kani.',
                note='NFC uninterpreted.'),
    'C06': dict(tech=TECH_VK, ref='4 C06',
                text='One application of the nickname rules proved equal to nick_step; enforce proved equal to stab(nick_step, s, 3) through the deterministic contract of stabilize; fixed-point corollaries as lemmas.',
                note='NFKC uninterpreted.'),
    'C07': dict(tech=TECH_V, ref='4 C07',
                text='compare of all four profiles proved equal to cmp_spec(canon(a), canon(b)) with the first operand\'s error first; equivalence-relation lemmas over that contract.',
                note='canon = enforce spec (usernames, OpaqueString) / stab(nick_cmp_step) (Nickname).'),
    'C09': dict(tech=TECH_VK, ref='4 C09',
                text='Bidi scan proved, for labels of any length, sound w.r.t. the declarative six-condition RFC 5893 rule and complete on labels whose NSMs are all trailing; exact equality is a named obligation that is a listed known finding (R NSM R); has_rtl and the directionality wrapper exact; bidi table by Kani for every assigned code point.',
                note='generic IntoIterator parameter handled through the vx_into_iter wrapper; classes of unassigned code points unchecked.'),
    'C10': dict(tech=TECH_VK, ref='4 C10',
                text='case_mapping_rule proved equal to the per-character full lowercase mapping of the whole string; the two std facts it needs (trigger == "to_lowercase(c) != [c]", Lowercase chars map to themselves) proved by Kani over all chars on the real std tables.',
                note='char::to_lowercase is the documented oracle (uninterpreted spec_lower).'),
    'C11': dict(tech=TECH_VK, ref='4 C11',
                text='width_mapping_rule proved equal to the per-character map; table == <wide>/<narrow> decompositions of UnicodeData 16.0.0, all values scalar, idempotent per code point: Kani over all u32; string-level idempotence lemma in Verus.',
                note='independent UCD oracle parser trusted.'),
    'C12': dict(tech=TECH_VK, ref='4 C12',
                text='trim_spaces proved equal to the recursive RFC 8266 spec collapse() for all strings (byte offsets, any mix of 1-4 byte characters); lemmas: no leading/trailing/double space, only U+0020, non-space characters kept in order, idempotent; password mapping likewise.',
                note='Zs membership is the uninterpreted zs(), tied to the real table and UCD by Kani.'),
    'C13': dict(tech=TECH_VK, ref='4 C13',
                text='stabilize proved against a relational contract over the caller\'s closure (fixed point reachable within 3 changing applications; own error; Invalid only after 4 changing applications) and a deterministic reading stab(st, s, 3).',
                note='the clause "never applies f more than four times" counts calls and is not expressible as a Verus postcondition; it is proved by Kani (result and exact number of applications) for every rule function over a 5-element state space, every start state, borrowed and owned results - within four applications stabilize can see at most five distinct strings and, by the Verus contract, depends only on their equality pattern; for rule functions outside that family the count is not claimed.'),
    'C14': dict(tech=TECH_VK, ref='4 C14',
                text='Decision list order proved in Verus against the RFC 8264 section 8 list over table predicates; every table predicate proved equal to its UCD 6.3.0 set by Kani for all 2^32 values; class relation lemma; non-scalars never valid.',
                note='HasCompat is defined as "NFKC(cp) != cp" over the uninterpreted normaliser and has_compat is verified against that definition; the exhaustive native lemma `derived` (kind X) cross-checks all of 0..=0x10FFFF on the real code; oracle parser trusted.'),
    'C15': dict(tech=TECH_VK, ref='4 C15',
                text='The in-memory generator algorithms proved for every well-formed input of any size (37 functions): UnicodeData::parse First/Last folding == recursive fold spec; all six UcdTableGen::process_entry flavours, ViramaTableGen, WidthMappingTableGen (row -> set/vector update); get_codepoints_vector (set -> sorted merged ranges: well-formed and denoting exactly the set); UnassignedTableGen::process_entry (searchable table covering exactly the gaps); BidiClassGen::compress_into_ranges (well-formed table denoting exactly the (code point, class) relation of the rows). End-to-end files->tables->lookup for the two pinned data sets by the Kani table harnesses; random small UCD inputs through the real generators as a bounded native stand-in for the driver loops and the text emission.',
                note='ucd-parse line parsing, regex, file I/O and the format!-based emission are trusted; ucd_parse::Codepoint/CodepointRange/Codepoints are a model of the dependency types; HashSet iteration + sort assumed to give the ascending elements; the driver loops over Box<dyn UcdLineParser> and the format!-based emission are not under contract.'),
    'C08': dict(tech=TECH_VK, ref='4 C08',
                text='Nickname: proved (lemma over the stabilize + nick_step contracts) that every accepted result is a fixed point, re-validated by FreeformClass, free of DISALLOWED/UNASSIGNED code points and re-enforced unchanged. Usernames/OpaqueString: validation-precedes-mapping is proved as part of the pipeline contracts; the per-code-point lemma "lowercase of a valid character stays non-forbidden" is evaluated exhaustively over all scalar values on the real code (listed known finding: Cherokee U+13A0..U+13F4); the NFC half rests on named unchecked axioms.',
                note='NOT fully decided: the three algebraic facts about the external normaliser (idempotent, preserves validity, introduces no mappable character) are assumptions no contract on precis code can discharge; bounded corpus search is a stand-in and is labelled so.'),
    'C16': dict(tech=TECH_V, ref='4 C16',
                text='Every operation has a functional postcondition over the argument contents (not over self or history), the pipeline contracts of C04-C07 count for this property; the PrecisFastInvocation functions are proved equal to the instance specs; frame condition checked syntactically on every run: no shared mutable state (static mut, atomics, cells, locks, thread_local, unsafe, lazy statics of other types) in the two crates.',
                note='interleavings are not verified (Kani has no threads): the frame scan only degrades the check (exit 2), the native thread clause samples 8 threads from first use of the lazy statics.'),
    'C18': dict(tech=TECH_K, ref='4 C18',
                text='All comparison operators of Codepoints vs u32 in both directions proved coherent over all 2^97 (entry, code point) combinations, including the reversed empty entries the generator emits; increasing entries give a monotone comparator.',
                note='run on the generated public.rs inside precis-core.'),
}

NOT_APPLICABLE = {
    'C17': 'the deciding logic is regex captures, ucd_parse::Codepoint::from_str and BufReader::read_line: outside both verifiers\' reach; assuming their contracts would assume the property (DESIGN.md C17)',
}
NOT_BUILT = {}


def main():
    checks = []
    for pid in sorted(CLAIMS):
        c = CLAIMS[pid]
        checks.append(dict(
            property_id=pid,
            quick_cmd='./check %s --tier quick' % pid,
            thorough_cmd='./check %s --tier thorough' % pid,
            evidence_file='/verif/evidence/%s.json' % pid,
            replay_cmd_template='./check --replay {path}',
            engine='verus+kani',
            level_claimed=dict(category='proof', text=c['text'], design_ref='DESIGN.md section ' + c['ref']),
            level_note=c['note'],
            technique=c['tech'],
        ))
    na = [dict(property_id=k, reason=v) for k, v in sorted({**NOT_APPLICABLE, **{k: v for k, v in NOT_BUILT.items() if k not in CLAIMS}}.items())]
    m = dict(
        version=1,
        setup_cmd='python3 -c "import sys; sys.path.insert(0, \'/verif\'); import vlib.gen, vlib.kani, vlib.verus" && verus --version >/dev/null',
        hooks=dict(guard='precis_verif', enable='none needed: no hook in /repo; Kani harnesses are appended to a scratch copy under cfg(kani)',
                   baseline_off_cmd='cd /repo && cargo test --workspace --no-fail-fast --offline', source_commits=[], add_only=True),
        engines=[
            dict(name='verus', path='/verif/vlib', serves_properties=[p for p in sorted(CLAIMS) if p != 'C18'],
                 kind_free_text='extractor + contract splicer + Verus 0.2026.09.13 on real function bodies'),
            dict(name='kani', path='/verif/kani', serves_properties=['C01', 'C02', 'C03', 'C05', 'C06', 'C09', 'C10', 'C11', 'C12', 'C14', 'C18'],
                 kind_free_text='complete per-code-point harnesses (Kani 0.68 / CBMC 6.11) appended to a scratch copy of the crates'),
        ],
        checks=checks,
        not_applicable=na,
        notes='fix: commits in /repo: 3e1ad5f 0a162fa 7d21090 873de0f f20979d (see known_findings.json). exit code 2 = undecided (never a VIOLATION).',
    )
    with open(os.path.join(VERIF, 'MANIFEST.json'), 'w') as f:
        json.dump(m, f, indent=1)
    try:
        import jsonschema
        jsonschema.validate(m, json.load(open('/root/.vp/MANIFEST.schema.json')))
        print('MANIFEST.json valid; %d checks, %d not_applicable' % (len(checks), len(na)))
    except ImportError:
        print('jsonschema not available; written without validation')


if __name__ == '__main__':
    main()
