#!/bin/bash
# usage: trymut.sh <patch> <property> [extra check args]   -- applies patch to /repo, runs the check, reverts
set -u
patch=$1; prop=$2; shift 2
cd /repo || exit 9
if ! git diff --quiet; then echo "repo dirty"; exit 9; fi
if ! git apply --check "$patch" 2>/dev/null; then echo "PATCH DOES NOT APPLY: $patch"; exit 8; fi
git apply "$patch"
cd /verif && ./check $prop "$@" > /tmp/trymut.out 2>&1; rc=$?
cd /repo && git checkout -- . && git clean -fdq precis-core/tests precis-profiles/tests precis-tools/tests 2>/dev/null
echo "== $patch $prop rc=$rc"; grep -E "VIOLATION|UNDECIDED|KNOWN|obligations=" /tmp/trymut.out | cut -c1-400
