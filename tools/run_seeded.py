#!/usr/bin/env python3
"""Run the check of a property against seeded changes applied to SCRATCH COPIES of /repo (never /repo itself), several
in parallel, and write seeded/RESULTS.md.  usage: run_seeded.py [--cross] [--jobs N] [--kani] [ids...]"""
import argparse, glob, json, os, re, shutil, subprocess, sys, tempfile
from concurrent.futures import ThreadPoolExecutor
VERIF = os.path.dirname(os.path.dirname(os.path.abspath(__file__)))
ALL = ['C01','C02','C03','C04','C05','C06','C07','C08','C09','C10','C11','C12','C13','C14','C15','C16','C18']

def run_one(mid, pid, kani):
    d = tempfile.mkdtemp(prefix='verif-seed-')
    try:
        repo = os.path.join(d, 'repo')
        subprocess.run('git -C /repo archive HEAD | tar -x -C %s' % repo.replace('repo', ''), shell=True) if False else None
        os.makedirs(repo)
        subprocess.run('git -C /repo archive HEAD | tar -x -C "%s"' % repo, shell=True, check=True)
        if os.path.exists('/repo/Cargo.lock'):
            shutil.copy('/repo/Cargo.lock', repo)
        pf = os.path.join(VERIF, 'seeded', mid + '.diff') if mid.startswith('harmless/') else os.path.join(VERIF, 'seeded', mid, 'patch.diff')
        p = subprocess.run(['patch', '-p1', '-s', '-i', pf], cwd=repo, capture_output=True, text=True)
        if p.returncode != 0:
            return mid, pid, 'PATCH-FAILS', ''
        env = dict(os.environ, VERIF_REPO=repo, VERIF_OUT=os.path.join(d, 'out'))
        cmd = [os.path.join(VERIF, 'check'), pid, '--no-vacuity'] + ([] if kani else ['--no-kani'])
        p = subprocess.run(cmd, cwd=VERIF, env=env, capture_output=True, text=True, timeout=3600)
        tags = sorted(set(re.findall(r'obligation=(\S+)', p.stdout)))
        return mid, pid, {0: 'pass', 1: 'VIOLATION', 2: 'UNDECIDED'}.get(p.returncode, 'rc=%d' % p.returncode), ' '.join(tags)[:160]
    finally:
        shutil.rmtree(d, ignore_errors=True)

def main():
    ap = argparse.ArgumentParser()
    ap.add_argument('ids', nargs='*')
    ap.add_argument('--cross', action='store_true', help='run every property check against each change')
    ap.add_argument('--jobs', type=int, default=4)
    ap.add_argument('--kani', action='store_true')
    ap.add_argument('--out', default=None)
    ap.add_argument('--harmless', action='store_true', help='run the behaviour-preserving edits of seeded/harmless (expected: no VIOLATION)')
    a = ap.parse_args()
    if a.harmless:
        ids = a.ids or sorted('harmless/' + os.path.basename(x)[:-5] for x in glob.glob(os.path.join(VERIF, 'seeded', 'harmless', '*.diff')))
    else:
        ids = a.ids or sorted(os.path.basename(x) for x in glob.glob(os.path.join(VERIF, 'seeded', 'C*-*')))
    jobs = []
    for mid in ids:
        own = mid.split('_')[1] if a.harmless else mid.split('-')[0]
        for pid in (ALL if a.cross else [own]):
            jobs.append((mid, pid))
    with ThreadPoolExecutor(a.jobs) as ex:
        res = list(ex.map(lambda j: run_one(j[0], j[1], a.kani), jobs))
    lines = ['| change | property checked | result | failed obligations |', '|---|---|---|---|']
    for mid, pid, r, tags in res:
        lines.append('| %s | %s | %s | %s |' % (mid, pid, r, tags))
    txt = '\n'.join(lines) + '\n'
    print(txt)
    if a.out:
        open(a.out, 'w').write(txt)

if __name__ == '__main__':
    main()
