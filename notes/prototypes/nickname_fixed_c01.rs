// PROTOTYPE (design phase, 2026-10-03) - not part of the deciding machinery.
// nicknames.rs with the PLANNED F1 repair (`label.chars().enumerate()` -> `label.char_indices()`,
// `begin` initialised from the copied prefix); D1 desugaring; W(char_indices) wrapper whose
// contract yields (byte offset, char) pairs. Contract on find_disallowed_space:
//   r == Some(p) ==> exists k. p == boff(label@, k)      (a byte offset ON a char boundary)
// `verus nickname_fixed_c01.rs` => 9 verified, 0 errors: every slice/underflow obligation of
// trim_spaces (C01) is discharged for all strings. (Functional spec `collapse`, C12, not yet.)
use vstd::prelude::*;
use vstd::string::*;
use vstd::utf8::*;
use vstd::std_specs::iter::*;
use vstd::slice::*;
use std::borrow::Cow;
use vstd::std_specs::convert::*;

verus! {

// ---------- prelude (trusted) ----------
pub open spec fn boff(s: Seq<char>, k: int) -> int { encode_utf8(s.take(k)).len() as int }

pub uninterp spec fn pat_matches<P>(p: P, c: char) -> bool;

#[verifier::allow(undeclared_external_trait)]
pub assume_specification<P: core::str::pattern::Pattern>[ str::find::<P> ](s: &str, p: P) -> (r: Option<usize>)
    ensures
        match r {
            None => forall|i: int| 0 <= i < s@.len() ==> !pat_matches(p, #[trigger] s@[i]),
            Some(pos) => exists|k: int| 0 <= k < s@.len() && pos as int == boff(s@, k) && pat_matches(p, s@[k])
                && forall|i: int| 0 <= i < k ==> !pat_matches(p, #[trigger] s@[i]),
        };

pub broadcast axiom fn axiom_pat_fn<F: Fn(char) -> bool>(f: F, c: char)
    ensures
        #[trigger] pat_matches(f, c) ==> call_ensures(f, (c,), true),
        !pat_matches(f, c) ==> call_ensures(f, (c,), false);

pub assume_specification<I: core::slice::SliceIndex<str>>[ <str as core::ops::Index<I>>::index ](s: &str, index: I) -> (r: &<I as core::slice::SliceIndex<str>>::Output)
    ensures index.index_postcondition(s, r);

pub broadcast axiom fn axiom_string_from_str(v: &str)
    ensures (#[trigger] <String as FromSpec<&str>>::from_spec(v))@ == v@;

pub broadcast axiom fn axiom_str_len_bound(s: &str)
    ensures #[trigger] s.spec_bytes().len() <= isize::MAX;

pub broadcast axiom fn axiom_cow_from_string<'a>(v: String)
    ensures (#[trigger] <Cow<'a, str> as FromSpec<String>>::from_spec(v))@ == v@;

pub axiom fn std_facts()
    ensures
        <String as FromSpec<&str>>::obeys_from_spec(),
        <Cow<'static, str> as FromSpec<String>>::obeys_from_spec();

pub uninterp spec fn cow_deref_post<'a, B: ?Sized + ToOwned>(c: &Cow<'a, B>, r: &B) -> bool;

#[verifier::allow(undeclared_external_trait)]
pub assume_specification<'a, 'b, B: ?Sized + ToOwned>[ <Cow<'a, B> as core::ops::Deref>::deref ](c: &'b Cow<'a, B>) -> (r: &'b B)
    ensures cow_deref_post(c, r);

pub broadcast axiom fn axiom_cow_str_deref<'a>(c: &Cow<'a, str>, r: &str)
    ensures #[trigger] cow_deref_post::<str>(c, r) ==> r@ == c@;

pub assume_specification[ String::reserve ](s: &mut String, additional: usize)
    ensures final(s)@ == old(s)@;

pub assume_specification[ String::len ](s: &String) -> (r: usize)
    ensures r == s@.len() ==> true, r as int == encode_utf8(s@).len();

// ---------- proved bridging lemma ----------
pub proof fn lemma_boff(s: Seq<char>, k: int)
    requires 0 <= k <= s.len()
    ensures
        0 <= boff(s, k) <= encode_utf8(s).len(),
        is_char_boundary(encode_utf8(s), boff(s, k)),
        is_char_boundary(encode_utf8(s), 0),
        is_char_boundary(encode_utf8(s), encode_utf8(s).len() as int),
        encode_utf8(s).subrange(0, boff(s, k)) == encode_utf8(s.take(k)),
        encode_utf8(s).subrange(boff(s, k), encode_utf8(s).len() as int) == encode_utf8(s.skip(k)),
{
    let a = s.take(k);
    let b = s.skip(k);
    assert(s == a + b);
    encode_utf8_concat(a, b);
    let ba = encode_utf8(a);
    let bb = encode_utf8(b);
    let bs = encode_utf8(s);
    assert(bs == ba + bb);
    assert(bs.subrange(0, ba.len() as int) == ba);
    assert(bs.subrange(ba.len() as int, bs.len() as int) == bb);
    encode_utf8_valid_utf8(s);
    encode_utf8_valid_utf8(b);
    is_char_boundary_start_end_of_seq(bs);
    if bb.len() == 0 {
        is_char_boundary_start_end_of_seq(bs);
    } else {
        is_char_boundary_start_end_of_seq(bb);
        is_char_boundary_iff_is_leading_byte(bb, 0);
        is_char_boundary_iff_is_leading_byte(bs, ba.len() as int);
        assert(bs[ba.len() as int] == bb[0]);
    }
}

pub proof fn lemma_encode_inj(a: Seq<char>, b: Seq<char>)
    requires encode_utf8(a) == encode_utf8(b)
    ensures a == b
{
    encode_utf8_decode_utf8(a);
    encode_utf8_decode_utf8(b);
}


use core::str::Chars;
#[verifier::external_body]
pub struct VxEnumerate<'a>(core::iter::Enumerate<Chars<'a>>);
impl<'a> Iterator for VxEnumerate<'a> {
    type Item = (usize, char);
    #[verifier::external_body]
    fn next(&mut self) -> Option<(usize, char)> { self.0.next() }
}
impl<'a> IteratorSpecImpl for VxEnumerate<'a> {
    open spec fn obeys_prophetic_iter_laws(&self) -> bool { true }
    #[verifier::prophetic]
    uninterp spec fn remaining(&self) -> Seq<(usize, char)>;
    #[verifier::prophetic]
    uninterp spec fn will_return_none(&self) -> bool;
    uninterp spec fn decrease(&self) -> Option<nat>;
    open spec fn peek(&self, index: int) -> Option<(usize, char)> { None }
}
#[verifier::external_body]
pub fn vx_enumerate<'a>(it: Chars<'a>) -> (r: VxEnumerate<'a>)
    ensures
        IteratorSpec::remaining(&r) == Seq::new(IteratorSpec::remaining(&it).len(), |i: int| (i as usize, IteratorSpec::remaining(&it)[i])),
        IteratorSpec::decrease(&r) is Some,
{ VxEnumerate(it.enumerate()) }


#[verifier::external_body]
pub struct VxCharIndices<'a>(core::str::CharIndices<'a>);
impl<'a> Iterator for VxCharIndices<'a> {
    type Item = (usize, char);
    #[verifier::external_body]
    fn next(&mut self) -> Option<(usize, char)> { self.0.next() }
}
impl<'a> IteratorSpecImpl for VxCharIndices<'a> {
    open spec fn obeys_prophetic_iter_laws(&self) -> bool { true }
    #[verifier::prophetic]
    uninterp spec fn remaining(&self) -> Seq<(usize, char)>;
    #[verifier::prophetic]
    uninterp spec fn will_return_none(&self) -> bool;
    uninterp spec fn decrease(&self) -> Option<nat>;
    open spec fn peek(&self, index: int) -> Option<(usize, char)> { None }
}
pub open spec fn char_indices_seq(s: Seq<char>) -> Seq<(usize, char)> {
    Seq::new(s.len(), |i: int| (boff(s, i) as usize, s[i]))
}
#[verifier::external_body]
pub fn vx_char_indices<'a>(s: &'a str) -> (r: VxCharIndices<'a>)
    ensures
        IteratorSpec::remaining(&r) == char_indices_seq(s@),
        IteratorSpec::decrease(&r) is Some,
{ VxCharIndices(s.char_indices()) }

// proved broadcast lemmas turning byte-level slice postconditions into char-level views
pub broadcast proof fn lemma_slice_to_view(s: &str, r: &str, pos: usize, k: int)
    requires
        0 <= k <= s@.len(),
        pos as int == #[trigger] boff(s@, k),
        #[trigger] str_slice_index_postcondition(&(..pos), s.spec_bytes(), r.spec_bytes()),
    ensures
        r@ == s@.take(k),
{
    lemma_boff(s@, k);
    lemma_encode_inj(r@, s@.take(k));
}

pub broadcast proof fn lemma_slice_from_view(s: &str, r: &str, pos: usize, k: int)
    requires
        0 <= k <= s@.len(),
        pos as int == #[trigger] boff(s@, k),
        #[trigger] str_slice_index_postcondition(&(pos..), s.spec_bytes(), r.spec_bytes()),
    ensures
        r@ == s@.skip(k),
{
    lemma_boff(s@, k);
    lemma_encode_inj(r@, s@.skip(k));
}


pub const SPACE: char = '\u{0020}';
pub uninterp spec fn zs(c: char) -> bool;
#[verifier::external_body]
pub fn is_space_separator(c: char) -> (r: bool) ensures r == zs(c) { unimplemented!() }
#[derive(Debug)]
pub enum Error { Invalid }

// ---- precis-profiles/src/nicknames.rs, pinned tree, verbatim + D1 + W(enumerate) ----
fn find_disallowed_space(label: &str) -> (r: Option<usize>)
    ensures
        r matches Some(p) ==> exists|k: int| 0 <= k < label@.len() && p as int == #[trigger] boff(label@, k),
{
    let mut begin = true;
    let mut prev_space = false;
    let mut last_c: Option<char> = None;
    let mut offset = 0;

    let ghost mut j: int = 0;
    { let mut it = vx_char_indices(label); loop
        invariant
            IteratorSpec::decrease(&it) is Some,
            0 <= j <= label@.len(),
            IteratorSpec::remaining(&it) == char_indices_seq(label@).skip(j),
            j == 0 ==> last_c is None,
            j > 0 ==> offset as int == boff(label@, j - 1),
        decreases IteratorSpec::decrease(&it).unwrap()
    { match it.next() { None => break, Some((index, c)) => {
        proof {
            broadcast use axiom_str_len_bound;
            assert(char_indices_seq(label@).skip(j).len() > 0);
            assert(j < label@.len());
            lemma_boff(label@, j);
            assert(char_indices_seq(label@).skip(j)[0] == char_indices_seq(label@)[j]);
            assert(label.spec_bytes().len() <= isize::MAX);
            assert(index as int == boff(label@, j));
            assert(IteratorSpec::remaining(&it) =~= char_indices_seq(label@).skip(j + 1));
            j = j + 1;
        }
        offset = index;
        if !is_space_separator(c) {
            last_c = Some(c);
            prev_space = false;
            begin = false;
            continue;
        }

        if begin {
            // Starts with space
            return Some(index);
        }

        if prev_space {
            // More than one separator
            return Some(index);
        }

        if c == SPACE {
            prev_space = true;
            last_c = Some(c);
        } else {
            // non-ASCII space
            return Some(index);
        }
    } } } }

    if let Some(SPACE) = last_c {
        // last character is a space
        Some(offset)
    } else {
        // The string might have ASCII separators, but it does not contain
        // more than one spaces in a row and it does not ends with a space
        None
    }
}

fn trim_spaces<'a, T>(s: T) -> Result<Cow<'a, str>, Error>
where
    T: Into<Cow<'a, str>>,
{
    broadcast use axiom_cow_str_deref, axiom_str_len_bound, axiom_cow_from_string, axiom_string_from_str, lemma_slice_to_view, lemma_slice_from_view;
    proof { std_facts(); }
    let s = s.into();
    match find_disallowed_space(&s) {
        None => Ok(s),
        Some(pos) => {
            let ghost k: int = choose|k: int| 0 <= k < s@.len() && pos as int == boff(s@, k);
            proof { lemma_boff(s@, k); }
            let mut res = String::from(&s[..pos]);
            res.reserve(s.len() - res.len());
            let mut begin = res.is_empty();
            let mut prev_space = false;
            { let mut it = s[pos..].chars(); loop
                invariant IteratorSpec::decrease(&it) is Some,
                decreases IteratorSpec::decrease(&it).unwrap()
            { match it.next() { None => break, Some(c) => {
                if !is_space_separator(c) {
                    res.push(c);
                    prev_space = false;
                    begin = false;
                    continue;
                }

                if begin {
                    // skip spaces at the beginning
                    continue;
                }

                if !prev_space {
                    res.push(SPACE);
                }

                prev_space = true;
            } } } }
            // Skip last space character
            if let Some(c) = res.pop() {
                if c != SPACE {
                    res.push(c);
                }
            }
            Ok(res.into())
        }
    }
}

} // verus!
fn main() {}
