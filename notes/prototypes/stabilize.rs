// PROTOTYPE (design phase, 2026-10-03) - not part of the deciding machinery.
// precis-core/src/profile.rs `stabilize`, body verbatim except: `for _i in` -> `for _i in it:`
// (A-rule), spliced requires/ensures/invariant, `let ghost`, proof{} blocks between statements.
// Relational contract over the caller's closure (call_ensures), so it covers total, failing,
// converging, cycling and diverging f.
// THIS FILE HAS THE PINNED LOOP `0..=2`: `verus stabilize.rs` => exactly one error, the clause
// [C13.error] "Invalid only after FOUR changing applications" (finding F4). With `0..=3`:
// 4 verified, 0 errors. With `0..=4`: [C13.fixpoint] `n <= 3` fails. `if tmp != c`: fails.
// Lessons: prelude axioms must live in a separate module from the module-level `broadcast use`;
// facts established before a loop (std_facts) must be re-established inside the loop body;
// never use the recursive call as the trigger inside a recursive spec fn.
use vstd::prelude::*;
use vstd::std_specs::convert::*;
use std::borrow::Cow;
verus! {

pub mod vx {
use super::*;
#[derive(Debug, PartialEq, Eq)]
pub enum Error { Invalid, Other(u32) }

pub uninterp spec fn cow_deref_post<'a, B: ?Sized + ToOwned>(c: &Cow<'a, B>, r: &B) -> bool;
#[verifier::allow(undeclared_external_trait)]
pub assume_specification<'a, 'b, B: ?Sized + ToOwned>[ <Cow<'a, B> as core::ops::Deref>::deref ](c: &'b Cow<'a, B>) -> (r: &'b B)
    ensures cow_deref_post(c, r);
pub broadcast axiom fn axiom_cow_str_deref<'a>(c: &Cow<'a, str>, r: &str)
    ensures #[trigger] cow_deref_post::<str>(c, r) ==> r@ == c@;

pub uninterp spec fn cow_eq_post<'a, 'b, B: ?Sized + ToOwned, C: ?Sized + ToOwned>(a: &Cow<'a, B>, b: &Cow<'b, C>, r: bool) -> bool;
#[verifier::allow(undeclared_external_trait)]
pub assume_specification<'a, 'b, B: ?Sized + PartialEq<C> + ToOwned, C: ?Sized + ToOwned>[ <Cow<'a, B> as PartialEq<Cow<'b, C>>>::eq ](a: &Cow<'a, B>, b: &Cow<'b, C>) -> (r: bool)
    ensures cow_eq_post(a, b, r);
pub broadcast axiom fn axiom_cow_str_eq<'a, 'b>(a: &Cow<'a, str>, b: &Cow<'b, str>, r: bool)
    ensures #[trigger] cow_eq_post::<str, str>(a, b, r) ==> r == (a@ == b@);

pub uninterp spec fn cow_into_owned_post<'a, B: ?Sized + ToOwned>(c: Cow<'a, B>, r: <B as ToOwned>::Owned) -> bool;
#[verifier::allow(undeclared_external_trait)]
pub assume_specification<'a, B: ?Sized + ToOwned>[ Cow::<'a, B>::into_owned ](c: Cow<'a, B>) -> (r: <B as ToOwned>::Owned)
    ensures cow_into_owned_post(c, r);
pub broadcast axiom fn axiom_cow_str_into_owned<'a>(c: Cow<'a, str>, r: String)
    ensures #[trigger] cow_into_owned_post::<str>(c, r) ==> r@ == c@;

pub broadcast axiom fn axiom_cow_from_string<'a>(v: String)
    ensures (#[trigger] <Cow<'a, str> as FromSpec<String>>::from_spec(v))@ == v@;
pub axiom fn std_facts()
    ensures <Cow<'static, str> as FromSpec<String>>::obeys_from_spec();


}
pub mod unit {
use super::*;
use super::vx::*;
broadcast use {axiom_cow_str_deref, axiom_cow_from_string, axiom_cow_str_eq, axiom_cow_str_into_owned};

// f applied to x may return Ok(y) / Err(e)
pub open spec fn f_ok<F: for<'b> Fn(&'b str) -> Result<Cow<'b, str>, Error>>(f: F, x: Seq<char>, y: Seq<char>) -> bool {
    exists|xs: &str, r: Result<Cow<str>, Error>| xs@ == x && call_ensures(f, (xs,), r) && r is Ok && r->Ok_0@ == y
}
pub open spec fn f_err<F: for<'b> Fn(&'b str) -> Result<Cow<'b, str>, Error>>(f: F, x: Seq<char>, e: Error) -> bool {
    exists|xs: &str, r: Result<Cow<str>, Error>| xs@ == x && call_ensures(f, (xs,), r) && r == Err::<Cow<str>, Error>(e)
}

pub open spec fn chain<F: for<'b> Fn(&'b str) -> Result<Cow<'b, str>, Error>>(f: F, a: Seq<char>, b: Seq<char>, n: nat) -> bool
    decreases n
{
    if n == 0 { a == b } else { exists|m: Seq<char>| chain(f, a, m, (n - 1) as nat) && #[trigger] f_ok(f, m, b) && m != b }
}

pub proof fn chain_step<F: for<'b> Fn(&'b str) -> Result<Cow<'b, str>, Error>>(f: F, a: Seq<char>, m: Seq<char>, b: Seq<char>, n: nat)
    requires chain(f, a, m, n), f_ok(f, m, b), m != b
    ensures chain(f, a, b, (n + 1) as nat)
{
    let n1: nat = (n + 1) as nat;
    assert((n1 - 1) as nat == n);
}

pub fn stabilize<'a, F, S>(s: S, f: F) -> (res: Result<Cow<'a, str>, Error>)
where
    S: Into<Cow<'a, str>>,
    F: for<'b> Fn(&'b str) -> Result<Cow<'b, str>, Error>,
    requires
        <S as IntoSpec<Cow<'a, str>>>::obeys_into_spec(),
        forall|x: &str| call_requires(f, (x,)),
    ensures
        // [C13.fixpoint] only observed fixed points, reachable from s by changing applications, at most 3 of them
        res matches Ok(x) ==> f_ok(f, x@, x@) && exists|n: nat| n <= 3 && #[trigger] chain(f, IntoSpec::<Cow<str>>::into_spec(s)@, x@, n),
        // [C13.error] f's own error, raised at a reachable string, or Invalid after FOUR changing applications
        res matches Err(e) ==> (exists|x: Seq<char>, n: nat| #[trigger] chain(f, IntoSpec::<Cow<str>>::into_spec(s)@, x, n) && f_err(f, x, e))
            || (e == Error::Invalid && exists|x: Seq<char>| #[trigger] chain(f, IntoSpec::<Cow<str>>::into_spec(s)@, x, 4)),
{
    proof { std_facts(); }
    let ghost s0 = IntoSpec::<Cow<str>>::into_spec(s)@;
    let mut c = s.into();
    for _i in it: 0..=2
        invariant
            forall|x: &str| call_requires(f, (x,)),
            chain(f, s0, c@, it.index@ as nat),
            s0 == IntoSpec::<Cow<str>>::into_spec(s)@,
    {
        proof { std_facts(); }
        let tmp = f(&c)?;
        proof { assert(f_ok(f, c@, tmp@)); }
        if tmp == c {
            return Ok(c);
        }
        let ghost oldc = c@;

        // Strings are not equal, so we have an owned copy.
        // We move the owned string without copying it for
        // the next iteration
        c = Cow::from(tmp.into_owned());
        proof {
            assert(chain(f, s0, oldc, it.index@ as nat) && f_ok(f, oldc, c@) && oldc != c@);
            assert(chain(f, s0, oldc, (((it.index@ + 1) as nat) - 1) as nat));
            let n1 = (it.index@ + 1) as nat;
            assert(it.index@ >= 0);
            assert(n1 >= 1);
            assert(chain(f, s0, oldc, (n1 - 1) as nat) && f_ok(f, oldc, c@) && oldc != c@);
            assert(exists|m: Seq<char>| #[trigger] chain(f, s0, m, (n1 - 1) as nat) && f_ok(f, m, c@) && m != c@);
            chain_step(f, s0, oldc, c@, it.index@ as nat);
            assert(chain(f, s0, c@, n1));
        }
    }

    // The string did not stabilized after applying the rules three times.
    Err(Error::Invalid)
}
}
} // verus!
fn main() {}
