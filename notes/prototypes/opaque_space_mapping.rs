// PROTOTYPE (design phase, 2026-10-03) - not part of the deciding machinery.
// Hand-assembled instance of what the extractor will generate for
// precis-profiles/src/passwords.rs `OpaqueString::additional_mapping_rule`:
//   * the function body is the repository's text verbatim, except `for c in` -> `for c in it:`
//     (A-rule) and the spliced `requires/ensures/invariant/proof{}`/`let ghost` lines;
//   * everything above "code under verification" is prelude: assumed std contracts (axiom /
//     assume_specification) and PROVED bridging lemmas (lemma_boff, lemma_slice_*_view).
// `verus opaque_space_mapping.rs` => 8 verified, 0 errors in ~2 s. Mutations tried: push(c) for
// push(SPACE), slice at pos+1, skip(1) on the rest, assert(false) probe - all rejected.
use vstd::prelude::*;
use vstd::string::*;
use vstd::utf8::*;
use vstd::std_specs::iter::*;
use vstd::slice::*;
use std::borrow::Cow;
use vstd::std_specs::convert::*;

verus! {

// ---------- prelude (trusted) ----------
pub open spec fn boff(s: Seq<char>, k: int) -> int { encode_utf8(s.take(k)).len() as int }

pub uninterp spec fn pat_matches<P>(p: P, c: char) -> bool;

#[verifier::allow(undeclared_external_trait)]
pub assume_specification<P: core::str::pattern::Pattern>[ str::find::<P> ](s: &str, p: P) -> (r: Option<usize>)
    ensures
        match r {
            None => forall|i: int| 0 <= i < s@.len() ==> !pat_matches(p, #[trigger] s@[i]),
            Some(pos) => exists|k: int| 0 <= k < s@.len() && pos as int == boff(s@, k) && pat_matches(p, s@[k])
                && forall|i: int| 0 <= i < k ==> !pat_matches(p, #[trigger] s@[i]),
        };

pub broadcast axiom fn axiom_pat_fn<F: Fn(char) -> bool>(f: F, c: char)
    ensures
        #[trigger] pat_matches(f, c) ==> call_ensures(f, (c,), true),
        !pat_matches(f, c) ==> call_ensures(f, (c,), false);

pub assume_specification<I: core::slice::SliceIndex<str>>[ <str as core::ops::Index<I>>::index ](s: &str, index: I) -> (r: &<I as core::slice::SliceIndex<str>>::Output)
    ensures index.index_postcondition(s, r);

pub broadcast axiom fn axiom_string_from_str(v: &str)
    ensures (#[trigger] <String as FromSpec<&str>>::from_spec(v))@ == v@;

pub broadcast axiom fn axiom_str_len_bound(s: &str)
    ensures #[trigger] s.spec_bytes().len() <= isize::MAX;

pub broadcast axiom fn axiom_cow_from_string<'a>(v: String)
    ensures (#[trigger] <Cow<'a, str> as FromSpec<String>>::from_spec(v))@ == v@;

pub axiom fn std_facts()
    ensures
        <String as FromSpec<&str>>::obeys_from_spec(),
        <Cow<'static, str> as FromSpec<String>>::obeys_from_spec();

pub uninterp spec fn cow_deref_post<'a, B: ?Sized + ToOwned>(c: &Cow<'a, B>, r: &B) -> bool;

#[verifier::allow(undeclared_external_trait)]
pub assume_specification<'a, 'b, B: ?Sized + ToOwned>[ <Cow<'a, B> as core::ops::Deref>::deref ](c: &'b Cow<'a, B>) -> (r: &'b B)
    ensures cow_deref_post(c, r);

pub broadcast axiom fn axiom_cow_str_deref<'a>(c: &Cow<'a, str>, r: &str)
    ensures #[trigger] cow_deref_post::<str>(c, r) ==> r@ == c@;

pub assume_specification[ String::reserve ](s: &mut String, additional: usize)
    ensures final(s)@ == old(s)@;

pub assume_specification[ String::len ](s: &String) -> (r: usize)
    ensures r == s@.len() ==> true, r as int == encode_utf8(s@).len();

// ---------- proved bridging lemma ----------
pub proof fn lemma_boff(s: Seq<char>, k: int)
    requires 0 <= k <= s.len()
    ensures
        0 <= boff(s, k) <= encode_utf8(s).len(),
        is_char_boundary(encode_utf8(s), boff(s, k)),
        is_char_boundary(encode_utf8(s), 0),
        is_char_boundary(encode_utf8(s), encode_utf8(s).len() as int),
        encode_utf8(s).subrange(0, boff(s, k)) == encode_utf8(s.take(k)),
        encode_utf8(s).subrange(boff(s, k), encode_utf8(s).len() as int) == encode_utf8(s.skip(k)),
{
    let a = s.take(k);
    let b = s.skip(k);
    assert(s == a + b);
    encode_utf8_concat(a, b);
    let ba = encode_utf8(a);
    let bb = encode_utf8(b);
    let bs = encode_utf8(s);
    assert(bs == ba + bb);
    assert(bs.subrange(0, ba.len() as int) == ba);
    assert(bs.subrange(ba.len() as int, bs.len() as int) == bb);
    encode_utf8_valid_utf8(s);
    encode_utf8_valid_utf8(b);
    is_char_boundary_start_end_of_seq(bs);
    if bb.len() == 0 {
        is_char_boundary_start_end_of_seq(bs);
    } else {
        is_char_boundary_start_end_of_seq(bb);
        is_char_boundary_iff_is_leading_byte(bb, 0);
        is_char_boundary_iff_is_leading_byte(bs, ba.len() as int);
        assert(bs[ba.len() as int] == bb[0]);
    }
}

pub proof fn lemma_encode_inj(a: Seq<char>, b: Seq<char>)
    requires encode_utf8(a) == encode_utf8(b)
    ensures a == b
{
    encode_utf8_decode_utf8(a);
    encode_utf8_decode_utf8(b);
}

// ---------- code under verification ----------
pub const SPACE: char = '\u{0020}';
pub uninterp spec fn zs(c: char) -> bool;

#[verifier::external_body]
pub fn is_space_separator(c: char) -> (r: bool)
    ensures r == zs(c)
{ unimplemented!() }

pub open spec fn nas(c: char) -> bool { c != SPACE && zs(c) }

pub fn is_non_ascii_space(c: char) -> (r: bool)
    ensures r == nas(c)
{
    c != SPACE && is_space_separator(c)
}

#[derive(Debug)]
pub enum Error { Invalid }

pub open spec fn map_sp(s: Seq<char>) -> Seq<char> {
    s.map_values(|c: char| if nas(c) { SPACE } else { c })
}

// proved broadcast lemmas turning byte-level slice postconditions into char-level views
pub broadcast proof fn lemma_slice_to_view(s: &str, r: &str, pos: usize, k: int)
    requires
        0 <= k <= s@.len(),
        pos as int == #[trigger] boff(s@, k),
        #[trigger] str_slice_index_postcondition(&(..pos), s.spec_bytes(), r.spec_bytes()),
    ensures
        r@ == s@.take(k),
{
    lemma_boff(s@, k);
    lemma_encode_inj(r@, s@.take(k));
}

pub broadcast proof fn lemma_slice_from_view(s: &str, r: &str, pos: usize, k: int)
    requires
        0 <= k <= s@.len(),
        pos as int == #[trigger] boff(s@, k),
        #[trigger] str_slice_index_postcondition(&(pos..), s.spec_bytes(), r.spec_bytes()),
    ensures
        r@ == s@.skip(k),
{
    lemma_boff(s@, k);
    lemma_encode_inj(r@, s@.skip(k));
}

fn additional_mapping_rule<'a, T>(s: T) -> (r: Result<Cow<'a, str>, Error>)
where
    T: Into<Cow<'a, str>>,
    requires
        <T as IntoSpec<Cow<'a, str>>>::obeys_into_spec(),
    ensures
        r is Ok,
        r.unwrap()@ == map_sp(IntoSpec::<Cow<str>>::into_spec(s)@),
{
    broadcast use axiom_pat_fn, axiom_cow_str_deref, axiom_str_len_bound, axiom_cow_from_string, axiom_string_from_str, lemma_slice_to_view, lemma_slice_from_view;
    proof { std_facts(); }
    let s = s.into();
    match s.find(is_non_ascii_space) {
        None => {
            proof {
                assert forall|i: int| 0 <= i < s@.len() implies !nas(#[trigger] s@[i]) by {
                    assert(!pat_matches(is_non_ascii_space, s@[i]));
                }
                assert(map_sp(s@) =~= s@);
            }
            Ok(s)
        },
        Some(pos) => {
            let ghost k: int = choose|k: int| 0 <= k < s@.len() && pos as int == boff(s@, k) && pat_matches(is_non_ascii_space, s@[k])
                && forall|i: int| 0 <= i < k ==> !pat_matches(is_non_ascii_space, #[trigger] s@[i]);
            proof {
                lemma_boff(s@, k);
                assert(map_sp(s@.take(k)) =~= s@.take(k));
            }
            let mut res = String::from(&s[..pos]);
            res.reserve(s.len() - res.len());
            for c in it: s[pos..].chars()
                invariant
                    0 <= k <= s@.len(),
                    it.seq() == s@.skip(k),
                    res@ == map_sp(s@.take(k + it.index@)),
            {
                proof {
                    let i = it.index@;
                    assert(s@.take(k + i + 1) =~= s@.take(k + i).push(s@[k + i]));
                    assert(map_sp(s@.take(k + i + 1)) =~= map_sp(s@.take(k + i)).push(if nas(c) { SPACE } else { c }));
                }
                if is_non_ascii_space(c) {
                    res.push(SPACE);
                } else {
                    res.push(c);
                }
            }
            proof {
                assert(s@.take(s@.len() as int) =~= s@);
            }
            Ok(res.into())
        }
    }
}

} // verus!
fn main() {}
