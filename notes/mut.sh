#!/bin/bash
# usage: mut.sh <file-rel> <python-regex> <replacement> [count]  -- runs the lib unit on a mutated scratch copy
set -e
rm -rf /tmp/mut && mkdir -p /tmp/mut && rsync -a --exclude target --exclude .git /repo/ /tmp/mut/
python3 - "$@" <<'PY'
import re,sys
f,rx,rep=sys.argv[1:4]
cnt=int(sys.argv[4]) if len(sys.argv)>4 else 1
p='/tmp/mut/'+f
s=open(p).read()
s2,n=re.subn(rx,rep,s,count=cnt)
assert n>=1, 'no match'
open(p,'w').write(s2)
PY
cd /verif && python3 -m vlib.dev ${UNIT:-lib} --repo /tmp/mut 2>&1 | grep -v '^WARNING' | cut -c1-400
rm -rf /tmp/mut
