#!/usr/bin/env python3
"""Compact dump of function definitions from a Verus crate-simple.vir log."""
import sys, re
sys.setrecursionlimit(100000)
def tokenize(s):
    i=0; n=len(s)
    while i<n:
        c=s[i]
        if c.isspace(): i+=1
        elif c in '()': yield c; i+=1
        elif c=='"':
            j=i+1
            while s[j]!='"':
                if s[j]=='\\': j+=1
                j+=1
            yield s[i:j+1]; i=j+1
        else:
            j=i
            while j<n and not s[j].isspace() and s[j] not in '()': j+=1
            yield s[i:j]; i=j
def parse(tokens):
    stack=[[]]
    for t in tokens:
        if t=='(':
            stack.append([])
        elif t==')':
            x=stack.pop(); stack[-1].append(x)
        else: stack[-1].append(t)
    return stack[0]
def get(l,key):
    for i,x in enumerate(l):
        if x==key and i+1<len(l): return l[i+1]
    return None
def typ(t):
    if not isinstance(t,list): return str(t)
    if t and t[0]=='Typ':
        k=t[1]
        if k=='Int': return {'USize':'usize','Int':'int','Nat':'nat','Char':'char'}.get(t[2][1] if isinstance(t[2],list) and len(t[2])>1 else '', ' '.join(map(str,t[2][1:])) if isinstance(t[2],list) else str(t[2]))
        if k=='Bool': return 'bool'
        if k=='TypParam': return t[2].strip('"')
        if k=='Decorate': return ('&' if 'Ref' in str(t[2]) else str(t[2][1] if isinstance(t[2],list) else t[2])+' ')+typ(t[4])
        if k=='Datatype':
            p=t[2]; name=p[2] if p[1]=='Path' else f'Tuple{p[2]}'
            args=[typ(a) for a in t[3]]
            return f"{name}<{','.join(args)}>" if args else str(name)
        if k=='Primitive': return t[2][1]+('<'+','.join(typ(a) for a in t[3])+'>' if t[3] else '')
        if k=='SpecFn': return 'spec_fn'
        return k
    return str(t)
def ex(e):
    if not isinstance(e,list): return str(e)
    if not e: return '()'
    h=e[0]
    if h in('@@','@'): return ex(e[2])
    if h=='>': return ex(e[1:])
    if h=='Call':
        tgt=get(e,':target'); args=get(e,':args')
        name='?'
        if isinstance(tgt,list):
            if tgt[0]=='CallTarget' and tgt[1]=='Fun':
                name=tgt[3][2]
                ta=tgt[4]
                if ta: name+='::<'+','.join(typ(a) for a in ta)+'>'
            else: name=ex(tgt[2]) if len(tgt)>2 else str(tgt)
        return f"{name}({', '.join(ex(a) for a in (args or []))})"
    if h=='ReadPlace': return ex(e[1])
    if h=='Place':
        if e[1]=='Local': return e[2][1].strip('"')
        if e[1]=='Temporary': return ex(e[2])
        if e[1]=='Field': 
            return ex(e[-1] if isinstance(e[-1],list) else e[2])+'.'+str(e[2])
        return 'Place:'+' '.join(ex(x) for x in e[1:])
    if h=='Var': return e[1][1].strip('"')
    if h=='Const': return ' '.join(str(x) for x in e[1][1:]) if isinstance(e[1],list) else str(e[1])
    if h=='Logical': return '('+f" {e[1][1]} ".join(ex(x) for x in e[2:])+')'
    if h=='Binary':
        op=e[1]; ops=' '.join(str(x) for x in (op[1:] if isinstance(op,list) else [op]))
        return '('+ex(e[2])+f' [{ops}] '+ex(e[3])+')'
    if h=='BinaryOpr': return '('+ex(e[2])+' [ext==] '+ex(e[3])+')'
    if h=='Unary': return f"{e[1] if not isinstance(e[1],list) else ' '.join(map(str,e[1]))}({ex(e[2])})"
    if h=='UnaryOpr':
        op=e[1]
        if isinstance(op,list) and op[0] in('Box','Unbox','CustomErr','HasType'): return ex(e[2])
        if isinstance(op,list) and op[0]=='Field': return ex(e[2])+'.'+str(get(op,':field'))+'@'+str(get(op,':variant'))
        if isinstance(op,list) and op[0]=='IsVariant': return ex(e[2])+' is '+str(get(op,':variant'))
        return f"{op}({ex(e[2])})"
    if h=='If': return f"if {ex(e[1])} {{ {ex(e[2])} }} else {{ {ex(e[3]) if len(e)>3 else ''} }}"
    if h=='Block': return ' ; '.join(ex(x) for x in e[1:] if x!=[])
    if h=='Quant':
        b=get(e,':binders') or e[2]
        return f"{e[1][1] if isinstance(e[1],list) else e[1]} {ex_b(e)} :: {ex(e[-1])}"
    if h=='Ctor': return f"{e[1][2] if isinstance(e[1],list) else e[1]}::{e[2]}{{{', '.join(str(f[1])+': '+ex(f[2]) for f in e[3] if isinstance(f,list))}}}"
    if h=='Match': return 'match '+ex(e[1])+' {'+' | '.join(ex(a) for a in e[2:])+'}'
    if h=='WithTriggers': return ex(e[-1])
    if h=='Bind': return 'bind '+ex_b(e)+' :: '+ex(e[-1])
    if h=='NullaryOpr': return str(e[1])
    if h=='Choose': return 'choose '+ex(e[-1])
    if h=='Loc': return ex(e[1])
    return '['+' '.join(ex(x) if isinstance(x,list) else str(x) for x in e)+']'
def ex_b(e):
    s=str(e)
    names=re.findall(r"VarIdent', '\"([^\"]+)\"'", s)
    return ','.join(dict.fromkeys(names[:6]))
def main():
    path=sys.argv[1]; pats=sys.argv[2:]
    src=open(path).read()
    # split top-level function forms cheaply
    idx=[m.start() for m in re.finditer(r'^\(@ "[^"]*" \(Function', src, re.M)]
    idx.append(len(src))
    for a,b in zip(idx,idx[1:]):
        chunk=src[a:b]
        m=re.search(r':name \(Fun :path ([^\s\)]+)\)', chunk)
        if not m: continue
        name=m.group(1)
        if not any(re.search(p,name) for p in pats): continue
        try:
            tree=parse(tokenize(chunk))[0]
        except Exception as ex_: 
            print('PARSE FAIL',name,ex_); continue
        f=tree[2]
        params=get(f,':params') or []
        ps=[]
        for p in params:
            pp=p[2]; ps.append(get(pp,':name')[1].strip('"')+': '+typ(get(pp,':typ')))
        ret=get(f,':ret'); rt=typ(get(ret[2],':typ')) if ret else ''
        print(f"\n== {get(f,':mode')} fn {name}<{','.join(x.strip(chr(34)) for x in (get(f,':typ_params') or []))}>({', '.join(ps)}) -> {rt}")
        for key in (':require',':ensure',':returns',':decrease'):
            v=get(f,key)
            if v and v!='None':
                if key==':ensure':
                    for grp in v:
                        for x in grp if isinstance(grp,list) else []:
                            print('   ensures', ex(x))
                elif key==':returns': print('   returns', ex(v))
                else:
                    for x in v: print('   '+key[1:], ex(x))
        body=get(f,':body')
        if body and body!='None': print('   body:', ex(body))
main()
