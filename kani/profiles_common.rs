
// ---- appended by /verif (Kani harnesses; the code above this line is byte-identical to /repo) ----
#[cfg(kani)]
#[allow(non_snake_case, dead_code)]
mod verif_kani {
    use super::*;
    include!("verif_oracle_profiles.rs");

    // Zs table (UnicodeData 16.0.0), all u32 that are chars
    #[kani::proof]
    #[kani::unwind(8)]
    fn tbl_zs() {
        let c: char = kani::any();
        kani::cover!(true);
        assert!(is_space_separator(c) == o_zs(c as u32));
    }
    #[kani::proof]
    #[kani::unwind(8)]
    fn zs_space() {
        assert!(is_space_separator(' '));
        assert!(!is_non_ascii_space(' '));
    }

    fn lower_is_self(c: char) -> bool {
        let mut it = c.to_lowercase();
        it.next() == Some(c) && it.next().is_none()
    }
    // ledger has_lower_mapping: the trigger of case_mapping_rule is exactly "to_lowercase(c) != [c]" (real std)
    #[kani::proof]
    #[kani::unwind(14)]
    fn has_lower_mapping() {
        let c: char = kani::any();
        kani::cover!(true);
        assert!(has_lowercase_mapping(c) == !lower_is_self(c));
    }
    // ledger lower_of_lowercase: the shortcut in the loop is sound
    #[kani::proof]
    #[kani::unwind(14)]
    fn lower_of_lowercase() {
        let c: char = kani::any();
        kani::assume(c.is_lowercase());
        kani::cover!(true);
        assert!(lower_is_self(c));
    }
}
