
// ---- appended by /verif (Kani harnesses; the code above this line is byte-identical to /repo) ----
#[cfg(kani)]
#[allow(non_snake_case, dead_code)]
mod verif_kani {
    use super::*;
    include!("verif_oracle_core.rs");

    // every harness: one symbolic code point over the full u32 domain, the real lookup function with the
    // real generated table on the left, the independent UCD oracle on the right.  binary_search_by is
    // unwound with unwinding assertions on, so a pass is a complete proof, not a bounded one.
    macro_rules! tbl {
        ($name:ident, $f:expr, $o:expr) => {
            #[kani::proof]
            #[kani::unwind(14)]
            fn $name() {
                let cp: u32 = kani::any();
                kani::cover!(true);
                assert!($f(cp) == $o(cp));
            }
        };
    }
    tbl!(tbl_is_join_control, is_join_control, o_join_control);
    tbl!(tbl_is_old_hangul_jamo, is_old_hangul_jamo, o_old_hangul_jamo);
    tbl!(tbl_is_unassigned, is_unassigned, o_unassigned);
    tbl!(tbl_is_ascii7, is_ascii7, o_ascii7);
    tbl!(tbl_is_control, is_control, o_control);
    tbl!(tbl_is_precis_ignorable_property, is_precis_ignorable_property, o_precis_ignorable);
    tbl!(tbl_is_space, is_space, o_space);
    tbl!(tbl_is_symbol, is_symbol, o_symbol);
    tbl!(tbl_is_punctuation, is_punctuation, o_punctuation);
    tbl!(tbl_is_other_letter_digit, is_other_letter_digit, o_other_letter_digit);
    tbl!(tbl_is_virama, is_virama, o_virama);
    tbl!(tbl_is_greek, is_greek, o_script_Greek);
    tbl!(tbl_is_hebrew, is_hebrew, o_script_Hebrew);
    tbl!(tbl_is_hiragana, is_hiragana, o_script_Hiragana);
    tbl!(tbl_is_katakana, is_katakana, o_script_Katakana);
    tbl!(tbl_is_han, is_han, o_script_Han);
    tbl!(tbl_is_dual_joining, is_dual_joining, o_jt_D);
    tbl!(tbl_is_left_joining, is_left_joining, o_jt_L);
    tbl!(tbl_is_right_joining, is_right_joining, o_jt_R);
    tbl!(tbl_is_transparent, is_transparent, o_jt_T);

    // is_letter_digit is seven searches; split per table so that each query stays small, then the
    // composition (a chain of ||) is checked with the per-table results as given
    tbl!(tbl_ld_Ll, |cp| is_in_table(cp, &LOWERCASE_LETTER), o_gc_Ll);
    tbl!(tbl_ld_Lu, |cp| is_in_table(cp, &UPPERCASE_LETTER), o_gc_Lu);
    tbl!(tbl_ld_Lo, |cp| is_in_table(cp, &OTHER_LETTER), o_gc_Lo);
    tbl!(tbl_ld_Nd, |cp| is_in_table(cp, &DECIMAL_NUMBER), o_gc_Nd);
    tbl!(tbl_ld_Lm, |cp| is_in_table(cp, &MODIFIER_LETTER), o_gc_Lm);
    tbl!(tbl_ld_Mn, |cp| is_in_table(cp, &NONSPACING_MARK), o_gc_Mn);
    tbl!(tbl_ld_Mc, |cp| is_in_table(cp, &SPACING_MARK), o_gc_Mc);
    tbl!(tbl_is_letter_digit, is_letter_digit, o_letter_digit);

    fn dpv_code(v: Option<&'static DerivedPropertyValue>) -> u8 {
        match v {
            None => 0,
            Some(DerivedPropertyValue::PValid) => 1,
            Some(DerivedPropertyValue::ContextO) => 2,
            Some(DerivedPropertyValue::Disallowed) => 3,
            Some(_) => 9,
        }
    }
    // Exceptions (F) against the RFC 5892 section 2.6 list transcribed in the oracle
    #[kani::proof]
    #[kani::unwind(14)]
    fn tbl_exceptions() {
        let cp: u32 = kani::any();
        kani::cover!(true);
        assert!(dpv_code(get_exception_val(cp)) == o_exception(cp));
    }
    // BackwardCompatible (G) is empty for Unicode 6.3.0
    #[kani::proof]
    #[kani::unwind(14)]
    fn tbl_backward_compatible() {
        let cp: u32 = kani::any();
        kani::cover!(true);
        assert!(get_backward_compatible_val(cp).is_none());
    }

    // C01 / C18: the comparison used by every binary search never yields None, for any entry shape
    #[kani::proof]
    fn partial_cmp_total() {
        let a: u32 = kani::any();
        let b: u32 = kani::any();
        let cp: u32 = kani::any();
        let single: bool = kani::any();
        let e = if single { Codepoints::Single(a) } else { Codepoints::Range(std::ops::RangeInclusive::new(a, b)) };
        kani::cover!(true);
        assert!(e.partial_cmp(&cp).is_some());
    }

    // Exactly the code points whose derived property is CONTEXTJ / CONTEXTO have a registered rule (all u32).
    // By the decision list proved in Verus ([C14.decision_list]) a code point is contextual iff Exceptions (F)
    // says so, or it passes F, G, Unassigned, ASCII7 and is a JoinControl; the real tables decide that here.
    #[kani::proof]
    #[kani::unwind(14)]
    fn registry_matches_contextual() {
        let cp: u32 = kani::any();
        let contextual = match get_exception_val(cp) {
            Some(v) => matches!(v, DerivedPropertyValue::ContextJ | DerivedPropertyValue::ContextO),
            None => match get_backward_compatible_val(cp) {
                Some(v) => matches!(v, DerivedPropertyValue::ContextJ | DerivedPropertyValue::ContextO),
                None => !is_unassigned(cp) && !is_ascii7(cp) && is_join_control(cp),
            },
        };
        kani::cover!(contextual);
        assert!(contextual == crate::context::get_context_rule(cp).is_some());
    }
}
