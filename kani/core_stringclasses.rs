
// ---- appended by /verif (Kani harnesses; the code above this line is byte-identical to /repo) ----
#[cfg(kani)]
mod verif_kani {
    use super::*;

    fn stub_has_compat(_cp: u32) -> bool { kani::any() }

    // surrogates and values above U+10FFFF are never valid, both classes, both entry points agree
    #[kani::proof]
    #[kani::unwind(14)]
    #[kani::stub(crate::common::has_compat, stub_has_compat)]
    fn non_scalar_never_valid() {
        let cp: u32 = kani::any();
        kani::assume(char::from_u32(cp).is_none());
        kani::cover!(true);
        let id = IdentifierClass::default();
        let ff = FreeformClass::default();
        let vi = id.get_value_from_codepoint(cp);
        let vf = ff.get_value_from_codepoint(cp);
        assert!(matches!(vi, DerivedPropertyValue::Disallowed | DerivedPropertyValue::Unassigned));
        assert!(matches!(vf, DerivedPropertyValue::Disallowed | DerivedPropertyValue::Unassigned));
    }
}
