
// ---- appended by /verif (Kani harnesses; the code above this line is byte-identical to /repo) ----
#[cfg(kani)]
mod verif_kani_codepoints {
    use super::*;
    use std::cmp::Ordering;

    fn entry(single: bool, a: u32, b: u32) -> Codepoints {
        if single { Codepoints::Single(a) } else { Codepoints::Range(std::ops::RangeInclusive::new(a, b)) }
    }

    // C18: for every entry (single, or range with start <= end) and every code point
    #[kani::proof]
    fn codepoints_cmp_coherent() {
        let a: u32 = kani::any();
        let b: u32 = kani::any();
        let cp: u32 = kani::any();
        let single: bool = kani::any();
        kani::assume(single || a <= b);
        kani::cover!(true);
        let e = entry(single, a, b);
        let lo = a;
        let hi = if single { a } else { b };
        let lt = e.lt(&cp);
        let gt = e.gt(&cp);
        let eq = e == cp;
        // exactly one of less / equal (contains) / greater, and they mean what they say
        assert!(lt == (hi < cp));
        assert!(gt == (lo > cp));
        assert!(eq == (lo <= cp && cp <= hi));
        assert!((lt as u8) + (gt as u8) + (eq as u8) == 1);
        // partial_cmp agrees
        let pc = e.partial_cmp(&cp);
        assert!(pc == Some(if lt { Ordering::Less } else if gt { Ordering::Greater } else { Ordering::Equal }));
        // the four relational operators agree
        assert!(e.le(&cp) == (lt || eq));
        assert!(e.ge(&cp) == (gt || eq));
        // mirrored comparisons with the code point on the left are the converses
        assert!(cp.lt(&e) == gt);
        assert!(cp.gt(&e) == lt);
        assert!((cp == e) == eq);
        assert!(cp.le(&e) == (gt || eq));
        assert!(cp.ge(&e) == (lt || eq));
        assert!(cp.partial_cmp(&e) == Some(if gt { Ordering::Less } else if lt { Ordering::Greater } else { Ordering::Equal }));
    }

    // the three operators binary_search uses keep the Less / Equal / Greater trichotomy also for the
    // reversed empty entries (start == end + 1) that the Unassigned generator emits
    #[kani::proof]
    fn codepoints_cmp_empty_entries() {
        let a: u32 = kani::any();
        let b: u32 = kani::any();
        let cp: u32 = kani::any();
        kani::assume(b < u32::MAX && a == b + 1);
        kani::cover!(true);
        let e = Codepoints::Range(std::ops::RangeInclusive::new(a, b));
        let pc = e.partial_cmp(&cp);
        assert!(pc.is_some());
        // an empty entry is never Equal to anything and splits code points at b | a
        assert!(pc != Some(Ordering::Equal));
        assert!((pc == Some(Ordering::Less)) == (cp > b));
        assert!((pc == Some(Ordering::Greater)) == (cp < a));
    }

    // entries laid out in increasing order give a monotone comparator: Less* Equal? Greater*
    #[kani::proof]
    fn codepoints_order_monotone() {
        let (a1, b1, a2, b2, cp): (u32, u32, u32, u32, u32) = (kani::any(), kani::any(), kani::any(), kani::any(), kani::any());
        let (s1, s2): (bool, bool) = (kani::any(), kani::any());
        kani::assume(s1 || a1 <= b1);
        kani::assume(s2 || a2 <= b2);
        let hi1 = if s1 { a1 } else { b1 };
        kani::assume(hi1 < a2);
        kani::cover!(true);
        let e1 = entry(s1, a1, b1);
        let e2 = entry(s2, a2, b2);
        let c1 = e1.partial_cmp(&cp).unwrap();
        let c2 = e2.partial_cmp(&cp).unwrap();
        // never (Greater or Equal) followed by (Less or Equal)
        assert!(!(c1 != Ordering::Less && c2 != Ordering::Greater));
    }
}
