
// ---- appended by /verif (Kani harnesses; the code above this line is byte-identical to /repo) ----
#[cfg(kani)]
mod verif_kani {
    use super::*;

    fn expected(cp: u32) -> Option<ContextRule> {
        // RFC 5892 Appendix A.1 - A.9, written from the "Code point:" line of each rule
        if cp == 0x00b7 { Some(rule_middle_dot) }
        else if cp == 0x200c { Some(rule_zero_width_nonjoiner) }
        else if cp == 0x200d { Some(rule_zero_width_joiner) }
        else if cp == 0x0375 { Some(rule_greek_lower_numeral_sign_keraia) }
        else if cp == 0x05f3 || cp == 0x05f4 { Some(rule_hebrew_punctuation) }
        else if cp == 0x30fb { Some(rule_katakana_middle_dot) }
        else if cp >= 0x0660 && cp <= 0x0669 { Some(rule_arabic_indic_digits) }
        else if cp >= 0x06f0 && cp <= 0x06f9 { Some(rule_extended_arabic_indic_digits) }
        else { None }
    }

    // the registry, for all 2^32 values: which function is registered for which code point
    #[kani::proof]
    fn registry() {
        let cp: u32 = kani::any();
        kani::cover!(true);
        match (get_context_rule(cp), expected(cp)) {
            (None, None) => {}
            (Some(f), Some(g)) => assert!(f as usize == g as usize),
            _ => assert!(false),
        }
    }
    // distinct rules are distinct functions (so pointer equality identifies the rule)
    #[kani::proof]
    fn registry_distinct() {
        let fs: [ContextRule; 8] = [rule_middle_dot, rule_zero_width_nonjoiner, rule_zero_width_joiner,
            rule_greek_lower_numeral_sign_keraia, rule_hebrew_punctuation, rule_katakana_middle_dot,
            rule_arabic_indic_digits, rule_extended_arabic_indic_digits];
        let i: usize = kani::any();
        let j: usize = kani::any();
        kani::assume(i < 8 && j < 8 && i != j);
        assert!(fs[i] as usize != fs[j] as usize);
    }
}
