
// ---- appended by /verif (Kani harnesses; the code above this line is byte-identical to /repo) ----
#[cfg(kani)]
mod verif_kani {
    use super::*;
    use crate::error::UnexpectedError;

    fn mk_rule<F>(f: F) -> F where F: for<'b> Fn(&'b str) -> Result<Cow<'b, str>, Error> { f }
    // five states.  (Names of equal length: with names of different lengths CBMC reported `"ab" == "ab"` as false for a
    // symbolic choice of the literal, a spurious failure; the prefix / length relations are exercised by the native C13 clause.)
    fn name(i: u8) -> &'static str { match i { 0 => "a", 1 => "b", 2 => "c", 3 => "d", _ => "e" } }
    fn idx(s: &str) -> u8 { s.as_bytes()[0] - b'a' }

    // every rule function over a 5-element state space (next state, or one of two errors), every start state,
    // borrowed or owned results: result and number of applications
    #[kani::proof]
    #[kani::unwind(8)]
    fn stabilize_state_machines() {
        let table: [u8; 5] = kani::any();
        kani::assume(table[0] < 7 && table[1] < 7 && table[2] < 7 && table[3] < 7 && table[4] < 7);
        let start: u8 = kani::any();
        kani::assume(start < 5);
        let borrowed: bool = kani::any();
        let calls = core::cell::Cell::new(0u8);
        let f = mk_rule(|s: &str| {
            calls.set(calls.get() + 1);
            let t = table[idx(s) as usize];
            if t == 5 { return Err(Error::Invalid); }
            if t == 6 { return Err(Error::Unexpected(UnexpectedError::Undefined)); }
            if borrowed { Ok(Cow::Borrowed(name(t))) } else { Ok(Cow::Owned(String::from(name(t)))) }
        });
        let got = stabilize(name(start), f);
        // reference: follow the table for at most four applications
        let mut c = start;
        let mut n = 0u8;
        let mut exp: u8 = 5; // 0..4 = Ok(state), 5 = Err(Invalid), 6 = Err(Undefined)
        let mut i = 0;
        while i < 4 {
            n += 1;
            let t = table[c as usize];
            if t >= 5 { exp = t; break; }
            if t == c { exp = c; break; }
            c = t;
            i += 1;
        }
        kani::cover!(n == 4 && exp == 5 && i == 4);
        kani::cover!(n == 3 && exp < 5);
        assert!(calls.get() == n);
        match got {
            Ok(s) => assert!(exp < 5 && idx(&s) == exp && s.len() == name(exp).len()),
            Err(Error::Invalid) => assert!(exp == 5),
            Err(Error::Unexpected(UnexpectedError::Undefined)) => assert!(exp == 6),
            Err(_) => assert!(false),
        }
    }
}
