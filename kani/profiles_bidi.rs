
// ---- appended by /verif (Kani harnesses; the code above this line is byte-identical to /repo) ----
#[cfg(kani)]
#[allow(non_snake_case, dead_code)]
mod verif_kani {
    use super::*;
    include!("verif_oracle_profiles.rs");

    fn idx(b: BidiClass) -> u8 {
        match b {
            BidiClass::AL => 0, BidiClass::AN => 1, BidiClass::B => 2, BidiClass::BN => 3, BidiClass::CS => 4,
            BidiClass::EN => 5, BidiClass::ES => 6, BidiClass::ET => 7, BidiClass::FSI => 8, BidiClass::L => 9,
            BidiClass::LRE => 10, BidiClass::LRI => 11, BidiClass::LRO => 12, BidiClass::NSM => 13, BidiClass::ON => 14,
            BidiClass::PDF => 15, BidiClass::PDI => 16, BidiClass::R => 17, BidiClass::RLE => 18, BidiClass::RLI => 19,
            BidiClass::RLO => 20, BidiClass::S => 21, BidiClass::WS => 22,
        }
    }
    // bidi class of every code point assigned in UnicodeData 16.0.0 (unassigned ones never reach the rule)
    #[kani::proof]
    #[kani::unwind(13)]
    fn tbl_bidi() {
        let cp: u32 = kani::any();
        kani::assume(o_assigned16(cp));
        kani::cover!(true);
        assert!(idx(bidi_class_cp(cp)) == o_bidi(cp));
    }
}
