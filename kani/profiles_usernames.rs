
// ---- appended by /verif (Kani harnesses; the code above this line is byte-identical to /repo) ----
#[cfg(kani)]
#[allow(non_snake_case, dead_code)]
mod verif_kani {
    use super::*;
    include!("verif_oracle_profiles.rs");

    // width table: exactly the <wide>/<narrow> decompositions of UnicodeData 16.0.0, with their first code point
    #[kani::proof]
    #[kani::unwind(10)]
    fn tbl_width() {
        let cp: u32 = kani::any();
        kani::cover!(true);
        assert!(get_decomposition_mapping(cp) == o_width(cp));
    }
    #[kani::proof]
    #[kani::unwind(10)]
    fn width_values_scalar() {
        let cp: u32 = kani::any();
        if let Some(d) = get_decomposition_mapping(cp) {
            kani::cover!(true);
            assert!(char::from_u32(d).is_some());
        }
    }
    #[kani::proof]
    #[kani::unwind(10)]
    fn width_idempotent() {
        let cp: u32 = kani::any();
        if let Some(d) = get_decomposition_mapping(cp) {
            kani::cover!(true);
            assert!(get_decomposition_mapping(d).is_none());
        }
    }
}
