"""Independent UCD oracle: parses the raw Unicode Character Database files that ship in /repo
(no ucd_parse, no precis-tools, no shared regex) and emits loop-free Rust predicates over a
symbolic code point.  These are the right-hand sides of the Kani table harnesses.

Regenerated on every run from the files in the tree, so a Unicode bump is checked against its own
data.  Also used by the native replay tool.
"""
import os
import sys


def _lines(path):
    with open(path, encoding='utf-8') as f:
        for raw in f:
            line = raw.split('#', 1)[0].strip()
            if line:
                yield line


def parse_unicode_data(path):
    """Returns list of (lo, hi, fields) with First/Last pairs folded into ranges."""
    out = []
    pending = None
    with open(path, encoding='utf-8') as f:
        for raw in f:
            raw = raw.rstrip('\n')
            if not raw:
                continue
            flds = raw.split(';')
            cp = int(flds[0], 16)
            name = flds[1]
            if name.endswith(', First>'):
                pending = (cp, flds)
                continue
            if name.endswith(', Last>'):
                assert pending is not None
                out.append((pending[0], cp, flds))
                pending = None
                continue
            out.append((cp, cp, flds))
    return out


def parse_prop_file(path):
    """`XXXX[..YYYY] ; Value` files -> dict value -> list of (lo, hi)."""
    d = {}
    for line in _lines(path):
        parts = [p.strip() for p in line.split(';')]
        rng, val = parts[0], parts[1]
        if '..' in rng:
            lo, hi = rng.split('..')
        else:
            lo = hi = rng
        d.setdefault(val, []).append((int(lo, 16), int(hi, 16)))
    return d


def merge(ranges):
    ranges = sorted(ranges)
    out = []
    for lo, hi in ranges:
        if out and lo <= out[-1][1] + 1:
            out[-1] = (out[-1][0], max(out[-1][1], hi))
        else:
            out.append((lo, hi))
    return out


def complement(ranges, lo=0, hi=0x10FFFF):
    out = []
    cur = lo
    for a, b in merge(ranges):
        if a > cur:
            out.append((cur, a - 1))
        cur = max(cur, b + 1)
    if cur <= hi:
        out.append((cur, hi))
    return out


def pat(ranges):
    if not ranges:
        return None
    return ' | '.join(('0x%x' % a) if a == b else ('0x%x..=0x%x' % (a, b)) for a, b in ranges)


def rust_pred(name, ranges, chunk=64):
    """fn name(cp: u32) -> bool; large sets are split into several `matches!` to keep rustc happy."""
    ranges = merge(ranges)
    if not ranges:
        return 'pub fn %s(_cp: u32) -> bool { false }\n' % name
    parts = []
    for i in range(0, len(ranges), chunk):
        parts.append('matches!(cp, %s)' % pat(ranges[i:i + chunk]))
    return 'pub fn %s(cp: u32) -> bool {\n    %s\n}\n' % (name, '\n    || '.join(parts))


GC_TABLES = ['Ll', 'Lu', 'Lo', 'Nd', 'Lm', 'Mn', 'Mc', 'Cc', 'Zs', 'Sm', 'Sc', 'Sk', 'So', 'Pc', 'Pd', 'Ps', 'Pe',
             'Pi', 'Pf', 'Po', 'Lt', 'Nl', 'No', 'Me']

# RFC 5892 section 2.6 Exceptions (F), transcribed from the RFC text
EXC_PVALID = [0x00DF, 0x03C2, 0x06FD, 0x06FE, 0x0F0B, 0x3007]
EXC_CONTEXTO = [0x00B7, 0x0375, 0x05F3, 0x05F4, 0x30FB] + list(range(0x0660, 0x066A)) + list(range(0x06F0, 0x06FA))
EXC_DISALLOWED = [0x0640, 0x07FA, 0x302E, 0x302F, 0x3031, 0x3032, 0x3033, 0x3034, 0x3035, 0x303B]


def core_sets(repo):
    base = os.path.join(repo, 'precis-core', 'resources', 'ucd')
    ud = parse_unicode_data(os.path.join(base, 'UnicodeData.txt'))
    gc = {}
    ccc9 = []
    assigned = []
    for lo, hi, f in ud:
        gc.setdefault(f[2], []).append((lo, hi))
        assigned.append((lo, hi))
        if int(f[3]) == 9:
            ccc9.append((lo, hi))
    props = parse_prop_file(os.path.join(base, 'PropList.txt'))
    core = parse_prop_file(os.path.join(base, 'DerivedCoreProperties.txt'))
    hst = parse_prop_file(os.path.join(base, 'HangulSyllableType.txt'))
    scripts = parse_prop_file(os.path.join(base, 'Scripts.txt'))
    jt = parse_prop_file(os.path.join(base, 'extracted', 'DerivedJoiningType.txt'))
    s = {}
    for g in GC_TABLES:
        s['gc_' + g] = gc.get(g, [])
    nonchar = props.get('Noncharacter_Code_Point', [])
    s['noncharacter'] = nonchar
    s['join_control'] = props.get('Join_Control', [])
    s['default_ignorable'] = core.get('Default_Ignorable_Code_Point', [])
    s['jamo_L'] = hst.get('L', [])
    s['jamo_V'] = hst.get('V', [])
    s['jamo_T'] = hst.get('T', [])
    # Unassigned (J): General_Category(cp) is in {Cn} and Noncharacter_Code_Point(cp) = False.
    # Cn = every code point of 0..=0x10FFFF without an entry in UnicodeData.txt
    cn = complement(assigned)
    s['cn'] = cn
    s['virama'] = ccc9
    for sc in ['Greek', 'Hebrew', 'Hiragana', 'Katakana', 'Han']:
        s['script_' + sc] = scripts.get(sc, [])
    for j in ['D', 'L', 'R', 'T']:
        s['jt_' + j] = jt.get(j, [])
    s['ascii7'] = [(0x21, 0x7e)]
    return s


def profile_data(repo):
    path = os.path.join(repo, 'precis-profiles', 'resources', 'ucd', 'UnicodeData.txt')
    ud = parse_unicode_data(path)
    zs = []
    width = []          # (cp, mapped)
    bidi = {}           # class -> ranges
    assigned = []
    for lo, hi, f in ud:
        assigned.append((lo, hi))
        if f[2] == 'Zs':
            zs.append((lo, hi))
        dec = f[5].strip()
        if dec.startswith('<wide>') or dec.startswith('<narrow>'):
            first = dec.split()[1]
            for cp in range(lo, hi + 1):
                width.append((cp, int(first, 16)))
        bidi.setdefault(f[4], []).append((lo, hi))
    return zs, width, bidi, assigned


BIDI_CLASSES = ['AL', 'AN', 'B', 'BN', 'CS', 'EN', 'ES', 'ET', 'FSI', 'L', 'LRE', 'LRI', 'LRO', 'NSM', 'ON', 'PDF',
                'PDI', 'R', 'RLE', 'RLI', 'RLO', 'S', 'WS']


def gen_core(repo):
    s = core_sets(repo)
    out = ['// GENERATED by /verif/oracle/ucdspec.py from the raw UCD 6.3.0 files in /repo (independent parser)\n']
    for k in sorted(s):
        out.append(rust_pred('o_' + k, s[k]))
    # composite predicates as RFC 8264 section 9 defines them
    out.append('''
pub fn o_letter_digit(cp: u32) -> bool { o_gc_Ll(cp) || o_gc_Lu(cp) || o_gc_Lo(cp) || o_gc_Nd(cp) || o_gc_Lm(cp) || o_gc_Mn(cp) || o_gc_Mc(cp) }
pub fn o_old_hangul_jamo(cp: u32) -> bool { o_jamo_L(cp) || o_jamo_V(cp) || o_jamo_T(cp) }
pub fn o_unassigned(cp: u32) -> bool { o_cn(cp) && !o_noncharacter(cp) }
pub fn o_precis_ignorable(cp: u32) -> bool { o_default_ignorable(cp) || o_noncharacter(cp) }
pub fn o_control(cp: u32) -> bool { o_gc_Cc(cp) }
pub fn o_space(cp: u32) -> bool { o_gc_Zs(cp) }
pub fn o_symbol(cp: u32) -> bool { o_gc_Sm(cp) || o_gc_Sc(cp) || o_gc_Sk(cp) || o_gc_So(cp) }
pub fn o_punctuation(cp: u32) -> bool { o_gc_Pc(cp) || o_gc_Pd(cp) || o_gc_Ps(cp) || o_gc_Pe(cp) || o_gc_Pi(cp) || o_gc_Pf(cp) || o_gc_Po(cp) }
pub fn o_other_letter_digit(cp: u32) -> bool { o_gc_Lt(cp) || o_gc_Nl(cp) || o_gc_No(cp) || o_gc_Me(cp) }
''')
    out.append('// RFC 5892 section 2.6 Exceptions (F): 0 = none, 1 = PVALID, 2 = CONTEXTO, 3 = DISALLOWED\n')
    out.append('pub fn o_exception(cp: u32) -> u8 {\n    if matches!(cp, %s) { 1 } else if matches!(cp, %s) { 2 } else if matches!(cp, %s) { 3 } else { 0 }\n}\n' % (
        pat(merge([(c, c) for c in EXC_PVALID])), pat(merge([(c, c) for c in EXC_CONTEXTO])),
        pat(merge([(c, c) for c in EXC_DISALLOWED]))))
    return ''.join(out)


def gen_profiles(repo):
    zs, width, bidi, assigned = profile_data(repo)
    out = ['// GENERATED by /verif/oracle/ucdspec.py from precis-profiles/resources/ucd/UnicodeData.txt (independent parser)\n']
    out.append(rust_pred('o_zs', zs))
    out.append(rust_pred('o_assigned16', assigned))
    out.append('pub fn o_width(cp: u32) -> Option<u32> {\n    match cp {\n')
    for cp, m in sorted(width):
        out.append('        0x%x => Some(0x%x),\n' % (cp, m))
    out.append('        _ => None,\n    }\n}\n')
    out.append('// bidi class index in the order of the generated enum; code points without an entry are L\n')
    out.append('pub const O_BIDI_NAMES: [&str; %d] = [%s];\n' % (len(BIDI_CLASSES), ', '.join('"%s"' % b for b in BIDI_CLASSES)))
    out.append('pub fn o_bidi(cp: u32) -> u8 {\n')
    first = True
    for i, b in enumerate(BIDI_CLASSES):
        if b == 'L' or b not in bidi:
            continue
        rs = merge(bidi[b])
        for j in range(0, len(rs), 64):
            out.append('    %sif matches!(cp, %s) { %d }\n' % ('' if first else 'else ', pat(rs[j:j + 64]), i))
            first = False
    out.append('    else { %d }\n}\n' % BIDI_CLASSES.index('L'))
    return ''.join(out)


if __name__ == '__main__':
    repo = sys.argv[1]
    outdir = sys.argv[2]
    os.makedirs(outdir, exist_ok=True)
    with open(os.path.join(outdir, 'oracle_core.rs'), 'w') as f:
        f.write(gen_core(repo))
    with open(os.path.join(outdir, 'oracle_profiles.rs'), 'w') as f:
        f.write(gen_profiles(repo))
