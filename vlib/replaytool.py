"""Build and run /verif/replay_tool against /repo's current tree (scratch build directory, removed afterwards)."""
import json
import os
import shutil
import subprocess
import sys
import tempfile

VERIF = os.path.dirname(os.path.dirname(os.path.abspath(__file__)))
_built = {}


class Tool:
    def __init__(self, repo):
        self.repo = repo
        self.dir = None
        self.bin = None

    def build(self):
        self.dir = tempfile.mkdtemp(prefix='verif-replay-')
        src = os.path.join(self.dir, 'src')
        os.makedirs(src)
        for fn in os.listdir(os.path.join(VERIF, 'replay_tool', 'src')):
            shutil.copy(os.path.join(VERIF, 'replay_tool', 'src', fn), os.path.join(src, fn))
        with open(os.path.join(VERIF, 'replay_tool', 'Cargo.toml.in')) as f:
            toml = f.read().replace('@REPO@', self.repo)
        with open(os.path.join(self.dir, 'Cargo.toml'), 'w') as f:
            f.write(toml)
        lock = os.path.join(self.repo, 'Cargo.lock')
        if os.path.exists(lock):
            shutil.copy(lock, os.path.join(self.dir, 'Cargo.lock'))
        sys.path.insert(0, VERIF)
        from oracle import ucdspec
        with open(os.path.join(src, 'oracle_core.rs'), 'w') as f:
            f.write(ucdspec.gen_core(self.repo))
        with open(os.path.join(src, 'oracle_profiles.rs'), 'w') as f:
            f.write(ucdspec.gen_profiles(self.repo))
        env = dict(os.environ)
        env['CARGO_NET_OFFLINE'] = 'true'
        env['CARGO_TARGET_DIR'] = os.path.join(self.dir, 'target')
        p = subprocess.run(['cargo', 'build', '--release', '--offline', '-q'], cwd=self.dir, env=env,
                           stdout=subprocess.PIPE, stderr=subprocess.STDOUT, timeout=1800)
        if p.returncode != 0:
            out = p.stdout.decode('utf-8', 'replace')
            self.cleanup()
            raise RuntimeError('replay tool does not build against the current tree: ' + out[-1500:])
        self.bin = os.path.join(self.dir, 'target', 'release', 'verif_replay')
        return self

    def run(self, args, timeout=1800):
        p = subprocess.run([self.bin] + [str(a) for a in args], stdout=subprocess.PIPE, stderr=subprocess.PIPE, timeout=timeout)
        return p.returncode, p.stdout.decode('utf-8', 'replace'), p.stderr.decode('utf-8', 'replace')

    def cleanup(self):
        if self.dir:
            shutil.rmtree(self.dir, ignore_errors=True)
            self.dir = None


def get(repo):
    if repo not in _built:
        _built[repo] = Tool(repo).build()
    return _built[repo]


def cleanup_all():
    for t in _built.values():
        t.cleanup()
    _built.clear()


def search_pid(pid, repo, seed, tier):
    """Returns dict(input=..., detail=...) for a failing input of the executable clauses of `pid`, or None."""
    tool = get(repo)
    budget = 20000 if tier == 'quick' else 200000
    rc, out, err = tool.run(['search', pid, seed, budget])
    for line in out.splitlines():
        line = line.strip()
        if line.startswith('{'):
            try:
                d = json.loads(line)
            except Exception:
                continue
            if d.get('found'):
                return dict(input=d.get('input'), detail=d.get('detail'), clause_set=pid)
            return None
    return None


def search(pid, failure, repo, seed, tier):
    return search_pid(pid, repo, seed, tier)


def exhaustive(name, repo):
    tool = get(repo)
    rc, out, err = tool.run(['exhaustive', name])
    for line in out.splitlines():
        if line.strip().startswith('{'):
            return rc, json.loads(line)
    return rc, None


def replay(rec, repo):
    tool = get(repo)
    try:
        w = rec['witness']
        rc, out, err = tool.run(['replay', w.get('clause_set', rec['property']), json.dumps(w['input'], ensure_ascii=False)])
        print(out.strip())
        return 1 if rc == 1 else 0
    finally:
        cleanup_all()
