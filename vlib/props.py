"""Which obligations decide which property.

Verus clauses carry tags `<P1>+<P2>.<name>`; a clause counts for property P when P is in its tag, or when
the tag's property is in DEPS[P] (the statement of P includes that behaviour).  Kani harnesses are
listed per property; quick = the ones that finish within about a minute each, thorough = all.
"""

ALL = ['C%02d' % i for i in range(1, 19)]

# behaviour that the statement of a property includes although the clause is tagged for another one (direct edges;
# counts_for uses the transitive closure)
DEPS = {
    'C02': ['C03'],             # "whose RFC 5892 rule is satisfied at that position": acceptance depends on the rules deciding correctly
    'C04': ['C02', 'C11', 'C10', 'C09'],   # "accepted by IdentifierClass", width mapping, lowercase mapping, "the directionality rule": the pipeline contract is stated over those rule contracts
    'C05': ['C02', 'C12'],      # "accepted by FreeformClass", "replacing every non-ASCII space"
    'C06': ['C02', 'C12', 'C13'],      # "validate with FreeformClass", "map every Zs ... strip ... collapse", "permitted number of re-applications"
    'C08': ['C06', 'C13', 'C04', 'C05'],   # Nickname half: re-validation every round + fixed point; other profiles: the argument rests on the pipeline contracts (validate, then map, then NFC)
    'C07': ['C13'],             # Nickname comparison form is iterated to stability
    'C16': ['C04', 'C05', 'C06', 'C07'],   # "results depend only on the arguments": every result is a spec function of the arguments, which is what those contracts state
}
# clauses that count only for the property they are tagged with: C09.exact compares the implemented language with
# RFC 5893 itself (a known finding of C09); the other properties only need the rule to be the function the rest of
# the contracts are stated over (C09.rtl / C09.ltr / ...)
OWN_ONLY = {'C09.exact'}


# preconditions that exist only to rule out a panic in the callee (`offset + 1` overflow in context::after; calling the
# caller's closure): a call site that does not establish them is a C01 failure, unlike the functional preconditions
SAFETY_REQ = {'REQ.after', 'REQ.f_total'}


def _closure(p, seen=None):
    seen = seen if seen is not None else set()
    for d in DEPS.get(p, []):
        if d not in seen:
            seen.add(d)
            _closure(d, seen)
    return seen


K = lambda pkg, h, quick=True: dict(pkg=pkg, harness=h, quick=quick)
CC = 'common::verif_kani::'
CORE_TABLES_QUICK = ['tbl_is_join_control', 'tbl_is_old_hangul_jamo', 'tbl_is_ascii7', 'tbl_is_control',
                     'tbl_is_precis_ignorable_property', 'tbl_is_space', 'tbl_exceptions', 'tbl_backward_compatible']
CORE_TABLES_SLOW = ['tbl_is_unassigned', 'tbl_is_symbol', 'tbl_is_punctuation', 'tbl_is_other_letter_digit',
                    'tbl_ld_Ll', 'tbl_ld_Lu', 'tbl_ld_Lo', 'tbl_ld_Nd', 'tbl_ld_Lm', 'tbl_ld_Mn', 'tbl_ld_Mc']
CTX_TABLES = ['tbl_is_virama', 'tbl_is_greek', 'tbl_is_hebrew', 'tbl_is_hiragana', 'tbl_is_katakana', 'tbl_is_han',
              'tbl_is_dual_joining', 'tbl_is_left_joining', 'tbl_is_right_joining', 'tbl_is_transparent']

KANI = {
    'C01': [K('precis-core', CC + 'partial_cmp_total'),
            K('precis-profiles', 'usernames::verif_kani::width_values_scalar')],
    'C02': [K('precis-core', 'context::verif_kani::registry'), K('precis-core', 'context::verif_kani::registry_distinct'),
            K('precis-core', CC + 'registry_matches_contextual')] + [K('precis-core', CC + t) for t in CTX_TABLES],
    'C03': [K('precis-core', 'context::verif_kani::registry'), K('precis-core', 'context::verif_kani::registry_distinct'),
            K('precis-core', CC + 'registry_matches_contextual')] + [K('precis-core', CC + t) for t in CTX_TABLES],
    # the two table-backed predicates the username pipeline rests on (C10 / C11 own them; C04's statement includes them)
    'C04': [K('precis-profiles', 'common::verif_kani::has_lower_mapping'), K('precis-profiles', 'usernames::verif_kani::tbl_width')],
    'C05': [K('precis-profiles', 'common::verif_kani::tbl_zs'), K('precis-profiles', 'common::verif_kani::zs_space')],
    'C06': [K('precis-profiles', 'common::verif_kani::tbl_zs'), K('precis-profiles', 'common::verif_kani::zs_space')],
    'C08': [K('precis-profiles', 'common::verif_kani::zs_space')],
    'C09': [K('precis-profiles', 'bidi::verif_kani::tbl_bidi')],
    'C10': [K('precis-profiles', 'common::verif_kani::has_lower_mapping'), K('precis-profiles', 'common::verif_kani::lower_of_lowercase')],
    'C11': [K('precis-profiles', 'usernames::verif_kani::tbl_width'), K('precis-profiles', 'usernames::verif_kani::width_values_scalar'),
            K('precis-profiles', 'usernames::verif_kani::width_idempotent')],
    'C12': [K('precis-profiles', 'common::verif_kani::tbl_zs'), K('precis-profiles', 'common::verif_kani::zs_space')],
    # every rule function over a 5-element state space, every start, borrowed/owned: result AND exact number of applications
    'C13': [K('precis-core', 'profile::verif_kani::stabilize_state_machines')],
    'C14': [K('precis-core', CC + t) for t in CORE_TABLES_QUICK] + [K('precis-core', CC + t, False) for t in CORE_TABLES_SLOW],
    # end-to-end for the two pinned data sets: files -> parse -> generate -> emit -> compile -> lookup == UCD oracle
    'C15': [K('precis-profiles', 'common::verif_kani::tbl_zs'), K('precis-profiles', 'usernames::verif_kani::tbl_width'),
            K('precis-core', CC + 'tbl_is_hebrew'), K('precis-core', CC + 'tbl_is_virama')]
           + [K('precis-core', CC + t, False) for t in CORE_TABLES_QUICK + CORE_TABLES_SLOW + [c for c in CTX_TABLES if c not in ('tbl_is_hebrew', 'tbl_is_virama')]]
           + [K('precis-profiles', 'bidi::verif_kani::tbl_bidi', False)],
    'C18': [K('precis-core', 'verif_kani_codepoints::codepoints_cmp_coherent'),
            K('precis-core', 'verif_kani_codepoints::codepoints_cmp_empty_entries'),
            K('precis-core', 'verif_kani_codepoints::codepoints_order_monotone')],
}

# which Verus unit a property needs
VERUS_UNITS = {p: ['lib'] for p in ALL}
VERUS_UNITS['C15'] = ['tools']
VERUS_UNITS['C17'] = []
VERUS_UNITS['C18'] = []

# ledger: assumption used on the Verus side  <-  what discharges it
LEDGER = {
    'LEDGER.tbl_zs': ['precis-profiles:common::verif_kani::tbl_zs'],
    'axiom_zs_space': ['precis-profiles:common::verif_kani::zs_space'],
    'LEDGER.has_lower_mapping': ['precis-profiles:common::verif_kani::has_lower_mapping'],
    'axiom_lower_of_lowercase': ['precis-profiles:common::verif_kani::lower_of_lowercase'],
    'LEDGER.tbl_width': ['precis-profiles:usernames::verif_kani::tbl_width'],
    'axiom_width_scalar': ['precis-profiles:usernames::verif_kani::width_values_scalar'],
    'axiom_width_idem': ['precis-profiles:usernames::verif_kani::width_idempotent'],
    'LEDGER.tbl_bidi': ['precis-profiles:bidi::verif_kani::tbl_bidi'],
    'LEDGER.tbl_exceptions (t_exception)': ['precis-core:common::verif_kani::tbl_exceptions'],
    'LEDGER.tbl_is_* (22 table predicates of precis-core)': ['precis-core:common::verif_kani::tbl_is_*'],
    'has_compat': ['verified in Verus against its definition over the uninterpreted NFKC; cross-checked natively by exhaustive derived (kind X)'],
    'axiom_space_freeform': ['native-exhaustive:derived (kind X, not deductive)'],
    'axiom_lower_keeps_valid (outside the listed Cherokee finding)': ['native-exhaustive:lower_valid (kind X, not deductive)'],
    'axiom_nfc_keeps_valid': ['UNCHECKED:external normaliser'],
    'LEDGER.registry': ['precis-core:context::verif_kani::registry', 'precis-core:context::verif_kani::registry_distinct'],
}


def kani_for(prop, tier):
    """(harnesses to run, harnesses not run in this tier).  quick: the property's own quick harnesses;
    thorough: all its own plus those of every property its statement depends on (DEPS closure)."""
    own = KANI.get(prop, [])
    if tier != 'thorough':
        return [h for h in own if h['quick']], [h['harness'] for h in own if not h['quick']]
    out, seen = [], set()
    for p in [prop] + sorted(_closure(prop)):
        for h in KANI.get(p, []):
            if h['harness'] not in seen:
                seen.add(h['harness'])
                out.append(h)
    return out, []


def tag_props(tag):
    head = tag.split('.', 1)[0]
    return head.split('+')


# A property about one profile inherits rule contracts through DEPS, but not those stated on ANOTHER profile's functions
# (C12 has a nickname half and a password half, C10 a username half and a nickname half, ...): clauses on these modules
# do not count for it through a dependency.  Clauses tagged with the property itself always count.
NOT_VIA_DEPS = {
    'C04': ('nicknames::', 'passwords::'),
    'C05': ('nicknames::', 'usernames::', 'bidi::'),
    'C06': ('usernames::', 'passwords::', 'bidi::'),
}


def counts_for(tag, prop, item=None):
    ps = tag_props(tag)
    if prop in ps:
        return True
    if tag in OWN_ONLY:
        return False
    if item and any(item.startswith(x) for x in NOT_VIA_DEPS.get(prop, ())):
        return False
    for d in _closure(prop):
        if d in ps:
            return True
    return False

# exhaustive native evaluation of a complete finite domain (kind X: not deductive, labelled as such)
EXHAUSTIVE = {
    'C14': ['derived'],     # both classes, both entry points, 0..=0x10FFFF + boundary values: decision list over the UCD oracle incl. has_compat == (NFKC(cp) != cp)
    'C01': ['no_panic_cp'],  # classification of every scalar / surrogate / boundary value returns; only panics count
    'C08': ['lower_valid', 'derived_scalar'],   # classification of every character (not of non-scalar u32 values: that is C14)
    'C09': ['bidi_probe'],
    'C10': ['lower_cp'],    # case_mapping_rule of every scalar value (alone / after an unmapped multi-byte char / after a mapped char) == char::to_lowercase
    'C11': ['width_cp'],    # width_mapping_rule of every scalar value (same three positions) == decomposition mapping of the UCD oracle
    'C04': ['width_cp', 'lower_cp'],
}
# which executable clause set of the replay tool belongs to a property
NATIVE_SET = {'C08': 'C08known'}
