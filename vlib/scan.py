"""Mechanical scan for everything that is assumed rather than proved in a generated Verus file."""
import re

RX = [
    ('assume_specification', re.compile(r'assume_specification\s*(?:<[^\[]*>)?\s*\[\s*([^\]]+?)\s*\]')),
    ('axiom', re.compile(r'\baxiom\s+fn\s+(\w+)')),
    ('uninterp', re.compile(r'\buninterp\s+spec\s+fn\s+(\w+)')),
]


def assumptions(text):
    out = []
    for kind, rx in RX:
        for mo in rx.finditer(text):
            out.append('%s %s' % (kind, re.sub(r'\s+', ' ', mo.group(1))))
    # external_body items: name of the fn/struct that follows
    for mo in re.finditer(r'#\[verifier::external_body\]\s*(?:#\[[^\]]*\]\s*)*(?:pub\s+)?(fn|struct)\s+(\w+)', text):
        out.append('external_body %s %s' % (mo.group(1), mo.group(2)))
    n_assume = len(re.findall(r'\bassume\s*\(', text))
    n_admit = len(re.findall(r'\badmit\s*\(', text))
    out.append('assume() statements: %d, admit(): %d' % (n_assume, n_admit))
    return out


STANDING = [
    'Verus 0.2026.09.13 / Z3, Kani 0.68 / CBMC 6.11 / cadical, rustc are trusted',
    'the extractor (vlib/extract.py): verbatim copy + D1 (definition of `for`) + W-rules (call through a wrapper whose body is the replaced expression) + A-rules (annotation carriers: typed closure headers, let-binding, lifting fast-invocation methods to free functions)',
    'prelude/vx.rs: assumed contracts on std (String/str/Cow/Option glue, str::find, slice postcondition, char::from_u32), listed in trusted_base',
    'unicode-normalization is an uninterpreted function (spec_nfc / spec_nfkc): is_nfc(s) implies nfc(s)=s, nfc() computes spec_nfc; no panics in it or in char::to_lowercase',
    'allocation failure (abort) is out of scope; machine integers are modelled exactly (overflow is an obligation)',
    'Kani proves partial correctness; termination comes from Verus decreases clauses',
]
PER = {
    'C03': ['the UCD oracle parser (oracle/ucdspec.py) reads the UCD 6.3.0 files correctly'],
    'C14': ['the UCD oracle parser (oracle/ucdspec.py) reads the UCD 6.3.0 files correctly; RFC 5892 2.6 exception list transcribed by hand',
            'has_compat(cp) == (NFKC(cp) != cp) is NOT proved deductively (NFKC internals): exhaustive native evaluation, labelled X'],
    'C09': ['bidi classes of code points unassigned in UnicodeData 16.0.0 are not checked (they never reach the rule through a profile)'],
    'C08': ['three algebraic facts about NFC used for usernames/OpaqueString are UNCHECKED axioms (see DESIGN.md C08)'],
    'C16': ['threads: the argument is the frame (no shared mutable state in the two crates, checked syntactically on every run by scan.shared_state) + the sequential contracts; interleavings are only sampled by the native thread clause'],
    'C02': ['AsRef<str> implementations are pure (as_ref_view)'],
}


def standing_assumptions(pid):
    return STANDING + PER.get(pid, [])


# ---- frame condition for C16: nothing in the two library crates can carry state from one call to another or between threads
_STATE_RX = [
    ('static mut', re.compile(r'\bstatic\s+mut\b')),
    ('interior mutability', re.compile(r'\b(Atomic[A-Z]\w*|Cell|RefCell|UnsafeCell|Mutex|RwLock|OnceCell|OnceLock|LazyLock|LazyCell|Once|Condvar)\b')),
    ('thread_local', re.compile(r'\bthread_local\s*!')),
    ('unsafe', re.compile(r'\bunsafe\b')),
]
_LAZY_OK = {'UsernameCaseMapped', 'UsernameCasePreserved', 'OpaqueString', 'Nickname'}


def shared_state(repo):
    """Non-test code of precis-core/src and precis-profiles/src: every construct that could hold state shared between calls
    or threads.  lazy_static singletons of the four stateless profile types are the only ones expected.
    Returns a list of 'file:line: kind: text'."""
    import os
    from . import rustscan
    out = []
    for crate in ('precis-core/src', 'precis-profiles/src', 'precis-tools/src/generators'):
        d = os.path.join(repo, crate)
        if not os.path.isdir(d):
            continue
        for root, _, files in os.walk(d):
            for fn in sorted(files):
                # of precis-tools only the template that is compiled into precis-core
                if not (fn.endswith('.rs') if not crate.startswith('precis-tools') else fn.endswith('.template')):
                    continue
                path = os.path.join(root, fn)
                text = open(path, encoding='utf-8').read()
                cut = text.find('#[cfg(test)]')
                if cut >= 0:
                    text = text[:cut]
                m = rustscan.mask(text)
                rel = os.path.relpath(path, repo)
                for kind, rx in _STATE_RX:
                    for mo in rx.finditer(m):
                        ln = m.count('\n', 0, mo.start()) + 1
                        out.append('%s:%d: %s: %s' % (rel, ln, kind, text.splitlines()[ln - 1].strip()[:120]))
                for mo in re.finditer(r'\bstatic\s+ref\s+\w+\s*:\s*([^=;]+?)\s*=', m):
                    ty = mo.group(1).strip()
                    if ty not in _LAZY_OK:
                        ln = m.count('\n', 0, mo.start()) + 1
                        out.append('%s:%d: lazy static of type %s: %s' % (rel, ln, ty, text.splitlines()[ln - 1].strip()[:120]))
                for mo in re.finditer(r'\bstatic\s+(?!ref\b|mut\b)(\w+)\s*:\s*([^=;]+?)\s*=', m):
                    ty = mo.group(2)
                    if re.search(r'\b(Atomic|Cell|Mutex|RwLock|Once|Lazy)', ty):
                        continue  # already reported above
    return out
