"""Mechanical scan for everything that is assumed rather than proved in a generated Verus file."""
import re

RX = [
    ('assume_specification', re.compile(r'assume_specification\s*(?:<[^\[]*>)?\s*\[\s*([^\]]+?)\s*\]')),
    ('axiom', re.compile(r'\baxiom\s+fn\s+(\w+)')),
    ('uninterp', re.compile(r'\buninterp\s+spec\s+fn\s+(\w+)')),
]


def assumptions(text):
    out = []
    for kind, rx in RX:
        for mo in rx.finditer(text):
            out.append('%s %s' % (kind, re.sub(r'\s+', ' ', mo.group(1))))
    # external_body items: name of the fn/struct that follows
    for mo in re.finditer(r'#\[verifier::external_body\]\s*(?:#\[[^\]]*\]\s*)*(?:pub\s+)?(fn|struct)\s+(\w+)', text):
        out.append('external_body %s %s' % (mo.group(1), mo.group(2)))
    n_assume = len(re.findall(r'\bassume\s*\(', text))
    n_admit = len(re.findall(r'\badmit\s*\(', text))
    out.append('assume() statements: %d, admit(): %d' % (n_assume, n_admit))
    return out


STANDING = [
    'Verus 0.2026.09.13 / Z3, Kani 0.68 / CBMC 6.11 / cadical, rustc are trusted',
    'the extractor (vlib/extract.py): verbatim copy + D1 (definition of `for`) + W-rules (call through a wrapper whose body is the replaced expression) + A-rules (annotation carriers: typed closure headers, let-binding, lifting fast-invocation methods to free functions)',
    'prelude/vx.rs: assumed contracts on std (String/str/Cow/Option glue, str::find, slice postcondition, char::from_u32), listed in trusted_base',
    'unicode-normalization is an uninterpreted function (spec_nfc / spec_nfkc): is_nfc(s) implies nfc(s)=s, nfc() computes spec_nfc; no panics in it or in char::to_lowercase',
    'allocation failure (abort) is out of scope; machine integers are modelled exactly (overflow is an obligation)',
    'Kani proves partial correctness; termination comes from Verus decreases clauses',
]
PER = {
    'C03': ['the UCD oracle parser (oracle/ucdspec.py) reads the UCD 6.3.0 files correctly'],
    'C14': ['the UCD oracle parser (oracle/ucdspec.py) reads the UCD 6.3.0 files correctly; RFC 5892 2.6 exception list transcribed by hand',
            'has_compat(cp) == (NFKC(cp) != cp) is NOT proved deductively (NFKC internals): exhaustive native evaluation, labelled X'],
    'C09': ['bidi classes of code points unassigned in UnicodeData 16.0.0 are not checked (they never reach the rule through a profile)'],
    'C08': ['three algebraic facts about NFC used for usernames/OpaqueString are UNCHECKED axioms (see DESIGN.md C08)'],
    'C16': ['only the sequential half is addressed: no claim about interleavings on the lazy_static singletons'],
    'C02': ['AsRef<str> implementations are pure (as_ref_view)'],
}


def standing_assumptions(pid):
    return STANDING + PER.get(pid, [])
