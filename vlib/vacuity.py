"""Vacuity guard: a second Verus pass over the same generated text with an `assert(false)` behind every
function's requires and at the head of every loop body that carries invariants.  Each probe sits under its own
uninterpreted guard (`if vx_probe(i) { assert(false) }`), so a failing probe does not poison what follows.
Every probe must FAIL; a probe that verifies means a contradictory precondition or invariant."""
import os
import re
from . import gen, verus


def run(repo, unit, workdir):
    em = gen.gen_lib(repo, probe=True) if unit == 'lib' else gen.gen_tools(repo, probe=True)
    path = os.path.join(workdir, 'probe_%s.rs' % unit)
    with open(path, 'w', encoding='utf-8') as f:
        f.write(em.render())
    res = verus.run(path, em, extra_args=['--multiple-errors', '40'])
    if res.compile_error:
        return dict(ok=False, error='probe pass did not compile: ' + res.compile_error[:400], probes=len(em.probes), failed_as_expected=0, vacuous=[])
    hit = set()
    for fl in res.failures:
        for mo in re.finditer(r'vx_probe\((\d+)\)', (fl.text or '') + ' ' + (fl.raw or '')):
            hit.add(int(mo.group(1)))
    vac = [dict(probe=i, item=item, where=where) for (i, item, where) in em.probes if i not in hit]
    # any failure that is not a probe means the probe text disturbed a proof: report, do not count as vacuity
    other = [fl.tag for fl in res.failures if 'vx_probe' not in ((fl.text or '') + (fl.raw or ''))]
    return dict(ok=not vac, probes=len(em.probes), failed_as_expected=len(hit), vacuous=vac, other_failures=other[:10], wall_s=round(res.wall_s, 1))
