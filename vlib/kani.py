"""Kani side: complete per-code-point harnesses appended to a scratch copy of /repo.

The scratch copy is made from /repo's current working tree on every run; harness modules are
*appended* to the source files (the functions under test stay byte-identical and private items are
reachable), the UCD oracle is regenerated from the UCD files in the tree, and `cargo kani` runs on
the real crates with the real generated tables and the real std.
"""
import os
import re
import shutil
import subprocess
import sys
import tempfile
import time

VERIF = os.path.dirname(os.path.dirname(os.path.abspath(__file__)))

APPEND = {
    'precis-core/src/common.rs': 'core_common.rs',
    'precis-core/src/context.rs': 'core_context.rs',
    'precis-core/src/lib.rs': 'core_lib.rs',
    'precis-core/src/profile.rs': 'core_profile.rs',
    'precis-profiles/src/common.rs': 'profiles_common.rs',
    'precis-profiles/src/usernames.rs': 'profiles_usernames.rs',
    'precis-profiles/src/bidi.rs': 'profiles_bidi.rs',
}

# harness name -> (package, module path prefix used by --harness)
PKG = {}


class Workspace:
    def __init__(self, repo):
        self.repo = repo
        self.dir = tempfile.mkdtemp(prefix='verif-kani-')
        self.src = os.path.join(self.dir, 'src')
        self.built = False

    def setup(self, mode='kani'):
        """mode 'kani': harness modules appended as they are (cfg(kani)).  mode 'test': the same modules turned into
        plain #[test] functions whose kani::any() reads the concrete bytes of a Kani counterexample (env VERIF_CEX),
        so that the verifier's counterexample is executed on the natively compiled real code."""
        self.mode = mode
        subprocess.run(['rsync', '-a', '--exclude', 'target', '--exclude', '.git', self.repo + '/', self.src + '/'], check=True)
        sys.path.insert(0, VERIF)
        from oracle import ucdspec
        with open(os.path.join(self.src, 'precis-core/src/verif_oracle_core.rs'), 'w') as f:
            f.write(ucdspec.gen_core(self.repo))
        with open(os.path.join(self.src, 'precis-profiles/src/verif_oracle_profiles.rs'), 'w') as f:
            f.write(ucdspec.gen_profiles(self.repo))
        for rel, h in APPEND.items():
            p = os.path.join(self.src, rel)
            if not os.path.exists(p):
                raise FileNotFoundError(rel)
            with open(os.path.join(VERIF, 'kani', h), encoding='utf-8') as f:
                extra = f.read()
            if mode == 'test':
                extra = to_test_module(extra)
            with open(p, 'a', encoding='utf-8') as f:
                f.write(extra)
        cfg = os.path.join(self.src, '.cargo')
        os.makedirs(cfg, exist_ok=True)
        with open(os.path.join(cfg, 'config.toml'), 'w') as f:
            f.write('[net]\noffline = true\n')

    def cleanup(self):
        shutil.rmtree(self.dir, ignore_errors=True)


SHIM = r"""
    #[allow(dead_code, unused_macros, unused_imports)]
    mod kani {
        use std::cell::RefCell;
        thread_local! { static Q: RefCell<Option<Vec<Vec<u8>>>> = RefCell::new(None); }
        fn next_bytes(n: usize) -> Vec<u8> {
            Q.with(|q| {
                let mut q = q.borrow_mut();
                if q.is_none() {
                    let raw = match std::env::var("VERIF_CEX") { Ok(r) => r, Err(_) => { println!("verif-replay: counterexample shape mismatch"); std::process::exit(4) } };
                    let mut v: Vec<Vec<u8>> = raw.split(';').filter(|x| !x.trim().is_empty())
                        .map(|x| x.split(',').filter(|y| !y.trim().is_empty()).map(|y| match y.trim().parse::<u8>() { Ok(b) => b,
                            Err(_) => { println!("verif-replay: counterexample shape mismatch"); std::process::exit(4) } }).collect()).collect();
                    v.reverse();
                    *q = Some(v);
                }
                let b = q.as_mut().unwrap().pop();
                match b {
                    Some(b) if b.len() == n => b,
                    _ => { println!("verif-replay: counterexample shape mismatch"); std::process::exit(4) }
                }
            })
        }
        pub trait Any { fn any() -> Self; }
        impl Any for u8 { fn any() -> Self { next_bytes(1)[0] } }
        impl Any for bool { fn any() -> Self { next_bytes(1)[0] & 1 == 1 } }
        impl Any for u16 { fn any() -> Self { let b = next_bytes(2); u16::from_le_bytes([b[0], b[1]]) } }
        impl Any for u32 { fn any() -> Self { let b = next_bytes(4); u32::from_le_bytes([b[0], b[1], b[2], b[3]]) } }
        impl Any for u64 { fn any() -> Self { let b = next_bytes(8); let mut a = [0u8; 8]; a.copy_from_slice(&b); u64::from_le_bytes(a) } }
        impl Any for usize { fn any() -> Self { let b = next_bytes(8); let mut a = [0u8; 8]; a.copy_from_slice(&b); u64::from_le_bytes(a) as usize } }
        impl Any for char { fn any() -> Self { let b = next_bytes(4); match char::from_u32(u32::from_le_bytes([b[0], b[1], b[2], b[3]])) {
            Some(c) => c, None => { println!("verif-replay: counterexample shape mismatch"); std::process::exit(4) } } } }
        impl<T: Any, const N: usize> Any for [T; N] { fn any() -> Self { std::array::from_fn(|_| T::any()) } }
        pub fn any<T: Any>() -> T { T::any() }
        pub fn assume(b: bool) { if !b { println!("verif-replay: assumption not satisfied"); std::process::exit(3) } }
        macro_rules! cover { ($($t:tt)*) => {} }
        pub(crate) use cover;
    }
"""


def to_test_module(text):
    out = []
    for line in text.splitlines(True):
        st = line.strip()
        if st == '#[cfg(kani)]':
            line = line.replace('#[cfg(kani)]', '#[cfg(test)]')
        elif st == '#[kani::proof]':
            line = line.replace('#[kani::proof]', '#[test]')
        elif st.startswith('#[kani::'):
            continue
        out.append(line)
        if st == 'use super::*;':
            out.append(SHIM)
    return ''.join(out)


def parse_playback(text):
    """Kani prints one generated unit test per failing check AND per satisfied cover:
        let concrete_vals: Vec<Vec<u8>> = vec![
            // 5908
            vec![20, 23, 0, 0],
        ];
    Returns one candidate per test: a list of byte vectors (one per kani::any() call, in call order)."""
    out = []
    for mo in re.finditer(r'concrete_vals\s*:\s*Vec<Vec<u8>>\s*=\s*vec!\[(.*?)\];', text, re.S):
        body = re.sub(r'//[^\n]*', '', mo.group(1))
        cand = [[int(x) for x in re.findall(r'\d+', v)] for v in re.findall(r'vec!\[([^\]]*)\]', body)]
        if cand not in out:
            out.append(cand)
    return out


def replay_cex(repo, package, harness, candidates, timeout=1800):
    """Run the harness body natively (cargo test) on the concrete values of Kani's counterexamples.
    candidates: list of candidates, each a list of byte vectors.
    Returns (the candidate on which the harness assertion fails on the real code, or None; text)."""
    ws = Workspace(repo)
    try:
        ws.setup(mode='test')
        env = dict(os.environ)
        env['CARGO_NET_OFFLINE'] = 'true'
        env['CARGO_TARGET_DIR'] = os.path.join(ws.dir, 'target-test')
        cmd = ['cargo', 'test', '--offline', '-p', package, '--lib', '--', '--exact', harness, '--nocapture', '--test-threads', '1']
        last = ''
        for vecs in candidates:
            env['VERIF_CEX'] = ';'.join(','.join(str(b) for b in v) for v in vecs)
            try:
                p = subprocess.run(cmd, cwd=ws.src, env=env, stdout=subprocess.PIPE, stderr=subprocess.STDOUT, timeout=timeout)
                out = p.stdout.decode('utf-8', 'replace')
            except subprocess.TimeoutExpired:
                return None, 'native replay of the counterexample timed out'
            last = out[-3000:]
            if 'verif-replay: counterexample shape mismatch' in out or 'verif-replay: assumption not satisfied' in out:
                continue
            if re.search(r'test %s \.\.\. FAILED' % re.escape(harness), out) or ('panicked at' in out and 'test result: FAILED' in out):
                return vecs, last
        return None, last
    finally:
        ws.cleanup()


class HarnessResult:
    def __init__(self, name):
        self.name = name
        self.status = 'NOT_RUN'     # SUCCESSFUL | FAILED | ERROR | TIMEOUT
        self.time_s = 0.0
        self.checks = 0
        self.failed_checks = []
        self.cover_ok = None
        self.cex = None             # concrete playback bytes if any
        self.output = ''

    def as_dict(self):
        return dict(name=self.name, status=self.status, time_s=round(self.time_s, 1), checks=self.checks,
                    failed_checks=self.failed_checks[:5], cover_satisfied=self.cover_ok, cex=self.cex)


def run(ws, package, harnesses, jobs=8, timeout=3000, playback=False):
    """Run the named harnesses of one package.  Returns dict name -> HarnessResult."""
    env = dict(os.environ)
    env['CARGO_NET_OFFLINE'] = 'true'
    cmd = ['cargo', 'kani', '-p', package, '-Z', 'stubbing', '--exact', '--output-format=terse', '-j', str(jobs)]
    if playback:
        cmd = ['cargo', 'kani', '-p', package, '-Z', 'stubbing', '--exact', '-Z', 'concrete-playback', '--concrete-playback=print']
    for h in harnesses:
        cmd += ['--harness', h]
    t0 = time.time()
    try:
        p = subprocess.run(cmd, cwd=ws.src, env=env, stdout=subprocess.PIPE, stderr=subprocess.STDOUT, timeout=timeout)
        out = p.stdout.decode('utf-8', 'replace')
        rc = p.returncode
    except subprocess.TimeoutExpired as e:
        out = (e.stdout or b'').decode('utf-8', 'replace')
        rc = -9
    wall = time.time() - t0
    res = {h: HarnessResult(h) for h in harnesses}
    # group output per harness.  Sequential format: "Checking harness X..." then the result;
    # with -j: "Thread N: Checking harness X..." and later "Thread N: " followed by the result block.
    blocks = {}
    cur_by_thread = {}
    cur = None
    for line in out.splitlines():
        mo = re.match(r'(?:Thread (\d+): )?Checking harness ([\w:]+)', line)
        if mo:
            th, full = mo.group(1), mo.group(2)
            blocks.setdefault(full, [])
            cur_by_thread[th] = full
            cur = full
            continue
        mo = re.match(r'Thread (\d+): ?$', line)
        if mo:
            cur = cur_by_thread.get(mo.group(1))
            continue
        if cur is not None:
            blocks[cur].append(line)
    for full, lines in blocks.items():
        b = '\n'.join(lines)
        short = full.split('::')[-1]
        r = res.get(full) or res.get(short)
        if r is None:
            continue
        r.output = b[-6000:]
        mo2 = re.search(r'\*\* (\d+) of (\d+) failed', b)
        if mo2:
            r.checks = int(mo2.group(2))
        if 'VERIFICATION:- SUCCESSFUL' in b:
            r.status = 'SUCCESSFUL'
        elif 'VERIFICATION:- FAILED' in b:
            r.status = 'FAILED'
            r.failed_checks = re.findall(r'Failed Checks: ([^\n]*)', b)
        mo3 = re.search(r'Verification Time: ([\d.]+)s', b)
        if mo3:
            r.time_s = float(mo3.group(1))
        mo4 = re.search(r'(\d+) of (\d+) cover properties satisfied', b)
        if mo4:
            r.cover_ok = (mo4.group(1) == mo4.group(2))
        if playback:
            r.cex = parse_playback(b)
    for r in res.values():
        if r.status == 'NOT_RUN':
            r.status = 'TIMEOUT' if rc == -9 else 'ERROR'
            r.output = out[-4000:]
    return res, wall, out
