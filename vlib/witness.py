"""Witness search and replay (never a decider): tries to turn a failed obligation into a concrete input
that shows the failure on the real, natively compiled code."""
import json
import os
import subprocess
import sys

VERIF = os.path.dirname(os.path.dirname(os.path.abspath(__file__)))


def search(pid, failure, repo, seed, tier):
    tool = os.path.join(VERIF, 'replay_tool')
    if not os.path.isdir(tool):
        return None
    from . import replaytool
    return replaytool.search(pid, failure, repo, seed, tier)


def replay(path, repo):
    with open(path) as f:
        rec = json.load(f)
    print('property   :', rec.get('property'))
    print('obligation :', rec.get('obligation'))
    print('function   :', rec.get('function'), rec.get('repo_file'), rec.get('repo_line'))
    print('clause     :', rec.get('clause'))
    w = rec.get('witness')
    if not w:
        print('no failing input was found for this obligation; verifier output follows')
        print(rec.get('verifier_output'))
        return 1
    if w.get('kind') == 'kani-cex':
        from . import kani
        rep, out = kani.replay_cex(repo, w['package'], w['harness'], [w['input']])
        print(out[-1500:])
        print('kani counterexample %s on the real code: %s' % (w['input'], 'REPRODUCED (harness assertion fails)' if rep else 'not reproduced'))
        return 1 if rep else 0
    from . import replaytool
    return replaytool.replay(rec, repo)
