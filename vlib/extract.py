"""Extractor / splicer: builds the Verus input from /repo's *current* source text.

Every byte of executable code in the generated file is copied from the repository at run time;
contracts only add text at anchored positions or apply the closed list of mechanical rewrites
documented in DESIGN.md section 3.1 (D1 = Rust's definition of `for`, W = call through a wrapper whose
body is the replaced expression, A = annotation carrier).  The output is a list of chunks, each
tagged with where it came from, so that a verifier diagnostic (byte span) maps back to either a
repository line or a named contract clause.
"""
import os
import re
from . import rustscan as rs
from .rustscan import AnchorLost


class Chunk:
    __slots__ = ('text', 'kind', 'file', 'line', 'tag', 'item')

    def __init__(self, text, kind, file=None, line=None, tag=None, item=None):
        self.text = text
        self.kind = kind      # 'repo' | 'clause' | 'support' | 'rewrite'
        self.file = file
        self.line = line      # 1-based line in repo file of the first char of text
        self.tag = tag
        self.item = item


class Source:
    _cache = {}

    def __init__(self, repo, rel):
        self.rel = rel
        self.path = os.path.join(repo, rel)
        with open(self.path, encoding='utf-8') as f:
            self.text = f.read()
        self.mask = rs.mask(self.text)

    @classmethod
    def get(cls, repo, rel):
        key = (repo, rel)
        if key not in cls._cache:
            cls._cache[key] = Source(repo, rel)
        return cls._cache[key]

    @classmethod
    def reset(cls):
        cls._cache = {}


# ----------------------------------------------------------------------------------------------
# contract data model


class Loop:
    def __init__(self, invariants=(), decreases=None, ghost=None, desugar=None, head='', tail='',
                 pre='', post='', itname='vx_it', invariant_except_break=(), ensures=()):
        self.invariants = list(invariants)   # [(tag, text)]
        self.decreases = decreases
        self.ghost = ghost                   # A-rule: `for x in <ghost>: e`
        self.desugar = desugar               # None = auto (D1 iff body contains `continue`)
        self.head = head
        self.tail = tail
        self.pre = pre
        self.post = post
        self.itname = itname
        self.invariant_except_break = list(invariant_except_break)
        self.ensures = list(ensures)


def _with_probe(L, pid_, item):
    import copy
    L2 = copy.copy(L)
    L2.head = 'proof { if crate::vx_probe(%d) { assert(false); } } // PROBE.%d\n' % (pid_, pid_) + (L.head or '')
    return L2


class Fn:
    def __init__(self, name, scope=None, ret=None, requires=(), ensures=(), attrs=(), mode='body',
                 rewrites=(), loops=None, inserts=(), head='', tail='', decreases=None, opens_invariants=None,
                 returns=None, rename=None, vis=None, no_unwind=False, drop_sig_re=None, no_w=False):
        self.name = name
        self.scope = scope
        self.ret = ret
        self.requires = list(requires)
        self.ensures = list(ensures)
        self.attrs = list(attrs)
        self.mode = mode                     # 'body' | 'sig' (external_body, body unimplemented)
        self.rewrites = list(rewrites)       # [(rule_id, regex, repl, count)]
        self.loops = loops or {}             # ordinal (1-based) -> Loop
        self.inserts = list(inserts)         # [(anchor_regex, occurrence, 'before'|'after', text)]
        self.head = head
        self.tail = tail
        self.decreases = decreases
        self.returns = returns
        self.rename = rename
        self.vis = vis
        self.no_unwind = no_unwind
        self.no_w = no_w


class Impl:
    """A braced container in the repo (impl / trait) of which selected functions are emitted."""

    def __init__(self, scope, fns, header=None, extra='', lift=None):
        self.lift = lift         # emit the selected methods as free functions named lift+name (no impl block)
        self.scope = scope       # regex of the header, e.g. r'impl\s+Profile\s+for\s+Nickname\b'
        self.fns = fns
        self.header = header     # override header text (None = copy from repo)
        self.extra = extra       # contract text placed inside the block (spec fns of a trait etc.)


class Verbatim:
    def __init__(self, header_re, strip_attrs=True, rewrites=()):
        self.header_re = header_re
        self.strip_attrs = strip_attrs
        self.rewrites = list(rewrites)


class StructFields:
    """A struct of the repository of which only the named fields are emitted (the others have types of
    external crates that are not modelled); the kept field lines are copied verbatim."""

    def __init__(self, header_re, keep):
        self.header_re = header_re
        self.keep = keep


class Text:
    def __init__(self, text, tag=None):
        self.text = text
        self.tag = tag


class Module:
    def __init__(self, name, src, items, header=''):
        self.name = name
        self.src = src            # repo-relative source path (may be None for pure contract modules)
        self.items = items
        self.header = header


# ----------------------------------------------------------------------------------------------


def _match_back(m, close_idx):
    pairs = {')': '(', ']': '['}
    c = m[close_idx]
    o = pairs[c]
    d = 0
    k = close_idx
    while k >= 0:
        if m[k] == c:
            d += 1
        elif m[k] == o:
            d -= 1
            if d == 0:
                return k
        k -= 1
    raise AnchorLost('unbalanced %s' % c)


def recv_start(m, dot_idx):
    """Start of the postfix expression that ends right before the '.' at dot_idx."""
    k = dot_idx
    while True:
        j = k - 1
        while j >= 0 and m[j].isspace():
            j -= 1
        if j < 0:
            return k
        if m[j] in ')]':
            j = _match_back(m, j)
            k = j
            # a call `name(...)` or index `name[...]`: continue with what precedes
            jj = j - 1
            if jj >= 0 and (m[jj].isalnum() or m[jj] == '_' or m[jj] in ')]'):
                continue
            return k
        if m[j].isalnum() or m[j] == '_':
            while j >= 0 and (m[j].isalnum() or m[j] == '_'):
                j -= 1
            k = j + 1
            jj = j
            while jj >= 0 and m[jj].isspace():
                jj -= 1
            if jj >= 0 and m[jj] == '.' and not (jj >= 1 and m[jj - 1] == '.'):
                k = jj
                continue
            if jj >= 1 and m[jj] == ':' and m[jj - 1] == ':':
                k = jj - 1
                continue
            return k
        return k


# W-rules: (id, regex matched on masked code starting at the '.', builder(recv, match) -> replacement)
# applied to every extracted function body; each replaces an expression by a call to a prelude
# wrapper whose body is that expression (see prelude/vx.rs).
W_RULES = [
    ('W.enumerate', re.compile(r'\.chars\(\)\s*\.enumerate\(\)'), lambda r, mo: 'vx_enumerate(%s.chars())' % r),
    ('W.char_indices', re.compile(r'\.char_indices\(\)'), lambda r, mo: 'vx_char_indices(%s)' % r),
    ('W.nth', re.compile(r'\.chars\(\)\s*\.nth\(([^()]*(?:\([^()]*\))?[^()]*)\)'), lambda r, mo: 'vx_chars_nth(%s, %s)' % (r, mo.group(1))),
    ('W.to_string', re.compile(r'\.to_string\(\)'), lambda r, mo: 'vx_char_to_string(%s)' % r),
    ('W.count', re.compile(r'\.chars\(\)\s*\.count\(\)'), lambda r, mo: 'vx_chars_count(&*%s)' % r),
    ('W.ends_with', re.compile(r'\.ends_with\(([^()]*)\)'), lambda r, mo: 'vx_string_ends_with_char(&%s, %s)' % (r, mo.group(1))),
    ('W.as_ref', re.compile(r'\.as_ref\(\)'), lambda r, mo: 'vx_as_ref_str(&%s)' % r),
    ('W.push_lowercase', re.compile(r'\.to_lowercase\(\)\s*\.for_each\(\|(\w+)\|\s*(\w+)\.push\(\1\)\)'), lambda r, mo: 'vx_push_lowercase(&mut %s, %s)' % (mo.group(2), r)),
    ('W.is_lowercase', re.compile(r'\.is_lowercase\(\)'), lambda r, mo: 'vx_char_is_lowercase(%s)' % r),
    ('W.nfc_collect', re.compile(r'\.nfc\(\)\s*\.collect::<String>\(\)'), lambda r, mo: 'vx_nfc_collect(&%s)' % r),
    ('W.nfkc_collect', re.compile(r'\.nfkc\(\)\s*\.collect::<String>\(\)'), lambda r, mo: 'vx_nfkc_collect(&%s)' % r),
]
def w_rewrite_str(s, counts):
    """Apply the W-rules inside an expression string (used for receivers of an outer rewrite)."""
    for _ in range(20):
        m = rs.mask(s)
        done = True
        for rid, rx, build in W_RULES:
            h = rx.search(m)
            if h:
                st = recv_start(m, h.start())
                s = s[:st] + build(s[st:h.start()], re.match(rx, s[h.start():h.end()]) or h) + s[h.end():]
                counts[rid] = counts.get(rid, 0) + 1
                done = False
                break
        if done:
            break
    return s


W_PREFIX_RULES = [
    ('W.un', re.compile(r'\bunicode_normalization::(?=\w+\()'), 'crate::vx::un::'),
]

DROP_ATTR_RX = re.compile(r'^\s*#\[(inline|allow\(|doc|must_use|cfg_attr)[^\n]*\]\s*$')


NO_LOOP_ISOLATION = True
FORCE_SIG = set()   # items ('module::fn') whose body cannot be spliced / is rejected by the front end: emitted by signature only
EXTRA_FNS = {}     # repo-relative source path -> [function names] (filled by the driver on 'cannot find function')


class Emitter:
    def __init__(self, repo, probe=False):
        self.stubbed = []      # (item, reason): functions that fell back to signature-only in this generation
        self.probe = probe     # vacuity probes: an `assert(false)` behind every requires / loop invariant; each must FAIL
        self.probes = []       # (probe id, item, where)
        self.repo = repo
        self.chunks = []
        self.log = []          # what was dropped / rewritten, for the evidence file
        self.rewrite_counts = {}
        self.items = []        # (item name, module) under contract

    def add(self, text, kind='support', **kw):
        if text:
            self.chunks.append(Chunk(text, kind, **kw))

    def repo_chunk(self, src, a, b, item=None):
        if b > a:
            self.chunks.append(Chunk(src.text[a:b], 'repo', file=src.rel, line=rs.line_of(src.text, a), item=item))

    # -- clause rendering ---------------------------------------------------------------------
    def clauses(self, kw, clauses, indent='    ', item=None):
        if not clauses:
            return
        self.add('\n%s%s\n' % (indent, kw))
        for tag, text in clauses:
            self.chunks.append(Chunk('%s    %s,\n' % (indent, text.strip()), 'clause', tag=tag, item=item))

    # -- items --------------------------------------------------------------------------------
    def emit_module(self, mod):
        self.add('\npub mod %s {\n' % mod.name)
        self.add(mod.header + '\n')
        src = Source.get(self.repo, mod.src) if mod.src else None
        for it in mod.items:
            self.emit_item(src, it, mod)
        # helper functions that the (changed) code calls but no contract names: extracted verbatim, without a
        # contract, so that a refactoring which introduces a helper still reaches the verifier
        for name in EXTRA_FNS.get(mod.src, []):
            try:
                self.emit_fn(src, Fn(name), mod)
                self.log.append('%s: helper fn %s extracted without contract (not named by any contract)' % (mod.src, name))
            except AnchorLost:
                pass
        self.add('\n} // mod %s\n' % mod.name)

    def emit_item(self, src, it, mod):
        if isinstance(it, Text):
            if it.tag:
                self.chunks.append(Chunk(it.text + '\n', 'clause', tag=it.tag))
            else:
                self.add(it.text + '\n')
        elif isinstance(it, Module):
            self.emit_module(it)
        elif isinstance(it, Verbatim):
            a, b = rs.find_item(src.text, src.mask, it.header_re)
            a = self._skip_dropped_attrs(src, a, b)
            if it.rewrites:
                txt = src.text[a:b]
                for rid, rx, repl, count in it.rewrites:
                    txt, n = re.subn(rx, repl, txt)
                    if n != count:
                        raise AnchorLost('rewrite %s in %s: %d matches, expected %d' % (rid, it.header_re, n, count))
                    self.rewrite_counts[rid] = self.rewrite_counts.get(rid, 0) + n
                self.chunks.append(Chunk(txt, 'repo', file=src.rel, line=rs.line_of(src.text, a)))
            else:
                self.repo_chunk(src, a, b)
            self.add('\n')
        elif isinstance(it, StructFields):
            a, b = rs.find_item(src.text, src.mask, it.header_re)
            a = self._skip_dropped_attrs(src, a, b)
            o = src.mask.find('{', a)
            self.repo_chunk(src, a, o + 1)
            self.add('\n')
            body = src.text[o + 1:b - 1]
            pos = o + 1
            dropped = []
            for line in body.split('\n'):
                mo = re.match(r'\s*(?:pub(?:\([a-z]+\))?\s+)?(\w+)\s*:', line)
                if mo and not line.strip().startswith('//'):
                    if mo.group(1) in it.keep:
                        self.chunks.append(Chunk(line + '\n', 'repo', file=src.rel, line=rs.line_of(src.text, pos)))
                    else:
                        dropped.append(mo.group(1))
                pos += len(line) + 1
            self.add('}\n')
            self.log.append('%s: struct %s: fields not modelled (dropped): %s' % (src.rel, it.header_re, ', '.join(dropped)))
        elif isinstance(it, Fn):
            self.emit_fn(src, it, mod)
        elif isinstance(it, Impl):
            hs, o, c = rs.find_block(src.text, src.mask, it.scope)
            if it.lift is not None:
                self.add('// methods of `%s` lifted to free functions (prefix %s)\n' % (src.text[hs:o].strip(), it.lift))
                self.rewrite_counts['A.lift'] = self.rewrite_counts.get('A.lift', 0) + len(it.fns)
                for f in it.fns:
                    f.scope = it.scope
                    f.rename = it.lift + f.name
                    self.emit_fn(src, f, mod)
            else:
                if it.header is None:
                    self.repo_chunk(src, hs, o + 1)
                else:
                    self.add(it.header + ' {')
                self.add('\n' + it.extra + '\n')
                for f in it.fns:
                    f.scope = it.scope
                    self.emit_fn(src, f, mod)
                self.add('}\n')
            # report dropped members
            names = set(re.findall(r'\bfn\s+(\w+)', src.mask[o:c]))
            kept = {f.name for f in it.fns}
            dropped = sorted(names - kept)
            if dropped:
                self.log.append('%s: %s: members not extracted: %s' % (src.rel, it.scope, ', '.join(dropped)))
        else:
            raise TypeError(it)

    def _skip_dropped_attrs(self, src, a, b):
        """Drop leading doc comments and #[inline]/#[allow]/#[derive(..)] attribute lines."""
        pos = a
        while True:
            e = src.text.find('\n', pos)
            if e < 0 or e >= b:
                break
            line = src.text[pos:e]
            s = line.strip()
            if s.startswith('///') or s.startswith('//') or DROP_ATTR_RX.match(line) or s == '':
                pos = e + 1
                continue
            break
        return pos

    # -- functions ----------------------------------------------------------------------------
    def emit_fn(self, src, f, mod):
        item = '%s::%s' % (mod.name, f.rename or f.name)
        if f.mode == 'body' and (item in FORCE_SIG or '%s::%s' % (mod.name, f.name) in FORCE_SIG):
            import copy
            g = copy.copy(f)
            g.mode = 'sig'
            self.stubbed.append((item, 'front end rejected the body'))
            return self._emit_fn(src, g, mod)
        if f.mode != 'body':
            return self._emit_fn(src, f, mod)
        mark = len(self.chunks)
        nitems = len(self.items)
        counts = dict(self.rewrite_counts)
        try:
            return self._emit_fn(src, f, mod)
        except AnchorLost as e:
            # the contract cannot be spliced onto the (changed) body: fall back to the signature with the
            # contract assumed, and report the function as not verified
            del self.chunks[mark:]
            del self.items[nitems:]
            self.rewrite_counts = counts
            import copy
            g = copy.copy(f)
            g.mode = 'sig'
            self.stubbed.append((item, 'anchor lost: %s' % e))
            return self._emit_fn(src, g, mod)

    def _emit_fn(self, src, f, mod):
        loc = rs.find_fn(src.text, src.mask, f.name, f.scope)
        text, m = src.text, src.mask
        item = '%s::%s' % (mod.name, f.name)
        self.items.append(item)
        a = self._skip_dropped_attrs(src, loc['start'], loc['end'])
        fn_kw, bo, bc = loc['fn_kw'], loc['body_open'], loc['body_close']
        sig_end = bo if bo is not None else loc['end'] - 1
        edits = []   # (pos, seq, end_or_None, [Chunk])

        def ins(pos, chunks, seq=0):
            edits.append((pos, seq, None, chunks))

        def rep(a_, b_, chunks, seq=0):
            edits.append((a_, seq, b_, chunks))

        sup = lambda t: Chunk(t, 'support', item=item)

        attrs = list(f.attrs)
        # every function with annotated loops is verified WITHOUT loop isolation: facts established before a loop
        # (e.g. a local introduced by a refactoring) stay visible inside it, which keeps the proofs robust against
        # harmless edits; loop `ensures` clauses are then neither allowed nor needed
        if f.mode == 'body' and f.loops and NO_LOOP_ISOLATION and not any('loop_isolation' in a_ for a_ in attrs):
            attrs.append('#[verifier::loop_isolation(false)]')
        for at in attrs:
            self.add(at + '\n')
        if f.rename:
            nm = re.compile(r'\bfn\s+(' + re.escape(f.name) + r')\b').match(m, fn_kw)
            rep(nm.start(1), nm.end(1), [Chunk(f.rename, 'rewrite', item=item)])
        if f.mode == 'sig':
            self.add('#[verifier::external_body]\n')

        # ---- signature: name the return value
        arrow, ret_end = self._ret_span(m, fn_kw, sig_end)
        if f.ret and arrow is not None:
            rt_a = arrow + 2
            while m[rt_a].isspace():
                rt_a += 1
            rt_b = ret_end
            while m[rt_b - 1].isspace():
                rt_b -= 1
            ins(rt_a, [sup('(%s: ' % f.ret)])
            ins(rt_b, [sup(')')], seq=20)
        # ---- contract clauses before the body
        cl = []

        def clause_chunks(kw, clauses):
            if not clauses:
                return
            cl.append(sup('\n    %s\n' % kw))
            for tag, t in clauses:
                cl.append(Chunk('        %s,\n' % t.strip(), 'clause', tag=tag, item=item))
        clause_chunks('requires', f.requires)
        clause_chunks('ensures', f.ensures)
        if f.returns:
            cl.append(sup('\n    returns\n'))
            cl.append(Chunk('        %s,\n' % f.returns[1], 'clause', tag=f.returns[0], item=item))
        if f.decreases:
            cl.append(sup('\n    decreases %s,\n' % f.decreases))
        if f.no_unwind:
            cl.append(sup('\n    no_unwind\n'))
        if cl:
            # a `where` clause must end with a comma before requires/ensures
            k = sig_end - 1
            while m[k].isspace():
                k -= 1
            has_where = re.search(r'\bwhere\b', m[fn_kw:sig_end]) is not None
            if has_where and m[k] != ',':
                ins(k + 1, [sup(',')], seq=30)
            ins(sig_end, cl, seq=10)

        if bo is None:
            # trait method declaration without body
            self._render(src, a, loc['end'], edits, item)
            self.add('\n')
            return

        if f.mode == 'sig':
            rep(bo, bc + 1, [sup('{ unimplemented!() }')])
            self._render(src, a, loc['end'], edits, item)
            self.add('\n')
            self.log.append('%s: %s: body not verified here (external_body), contract assumed' % (src.rel, item))
            return

        # ---- body head / tail
        if self.probe:
            pid_ = len(self.probes)
            self.probes.append((pid_, item, 'function entry (behind requires)'))
            ins(bo + 1, [Chunk('\nproof { if crate::vx_probe(%d) { assert(false); } }\n' % pid_, 'probe', tag='PROBE.%d' % pid_, item=item)], seq=-50)
        if f.head:
            ins(bo + 1, [sup('\n' + f.head + '\n')])
        if f.tail:
            ins(bc, [sup('\n' + f.tail + '\n')])

        # ---- loops
        loops = rs.find_loops(m, bo, bc)
        for ordinal, L in f.loops.items():
            if ordinal < 1 or ordinal > len(loops):
                raise AnchorLost('%s: loop #%d not found (%d loops)' % (item, ordinal, len(loops)))
            lp = loops[ordinal - 1]
            body = m[lp['open']:lp['close'] + 1]
            inv = []
            if L.invariants:
                inv.append(sup('\n        invariant\n'))
                for tag, t in L.invariants:
                    inv.append(Chunk('            %s,\n' % t.strip(), 'clause', tag=tag, item=item))
            if L.invariant_except_break:
                inv.append(sup('\n        invariant_except_break\n'))
                for tag, t in L.invariant_except_break:
                    inv.append(Chunk('            %s,\n' % t.strip(), 'clause', tag=tag, item=item))
            if L.ensures and not (NO_LOOP_ISOLATION or any('loop_isolation' in a_ for a_ in f.attrs)):
                inv.append(sup('\n        ensures\n'))
                for tag, t in L.ensures:
                    inv.append(Chunk('            %s,\n' % t.strip(), 'clause', tag=tag, item=item))
            if L.decreases:
                inv.append(sup('\n        decreases %s,\n' % L.decreases))
            if self.probe and (L.invariants or L.invariant_except_break):
                pid_ = len(self.probes)
                self.probes.append((pid_, item, 'loop #%d body (behind invariants)' % ordinal))
                L = _with_probe(L, pid_, item)
            if L.pre:
                ins(rs.line_start(text, lp['kw_idx']), [sup(L.pre + '\n')])
            if L.post:
                ins(lp['close'] + 1, [sup('\n' + L.post + '\n')], seq=-5)
            if lp['kind'] == 'for':
                mo = re.match(r'\s*(.*?)\s+in\s+', m[lp['kw_end']:lp['open']], re.S)
                if not mo:
                    raise AnchorLost('%s: cannot parse for-loop header' % item)
                pat_a = lp['kw_end'] + mo.start(1)
                pat_b = lp['kw_end'] + mo.end(1)
                expr_a = lp['kw_end'] + mo.end()
                expr_b = lp['open']
                while m[expr_b - 1].isspace():
                    expr_b -= 1
                desugar = L.desugar
                if desugar is None:
                    desugar = re.search(r'\bcontinue\b', body) is not None
                if desugar:
                    # D1: the Rust Reference's definition of `for`
                    self.rewrite_counts['D1'] = self.rewrite_counts.get('D1', 0) + 1
                    pat = text[pat_a:pat_b]
                    rep(lp['kw_idx'], expr_a, [Chunk('{ let mut %s = IntoIterator::into_iter(' % L.itname, 'rewrite', item=item)])
                    rep(expr_b, lp['open'] + 1,
                        [Chunk('); loop', 'rewrite', item=item)] + inv +
                        [Chunk('    { match %s.next() { None => break, Some(%s) => {' % (L.itname, pat), 'rewrite', item=item),
                         sup('\n' + L.head + '\n' if L.head else '')])
                    ins(lp['close'], [sup('\n' + L.tail + '\n' if L.tail else '')], seq=-1)
                    ins(lp['close'] + 1, [Chunk(' } } }', 'rewrite', item=item)], seq=-2)
                else:
                    if L.ghost:
                        ins(expr_a, [sup('%s: ' % L.ghost)])
                    ins(lp['open'], inv)
                    if L.head:
                        ins(lp['open'] + 1, [sup('\n' + L.head + '\n')])
                    if L.tail:
                        ins(lp['close'], [sup('\n' + L.tail + '\n')], seq=-1)
            else:
                ins(lp['open'], inv)
                if L.head:
                    ins(lp['open'] + 1, [sup('\n' + L.head + '\n')])
                if L.tail:
                    ins(lp['close'], [sup('\n' + L.tail + '\n')], seq=-1)

        # ---- anchored inserts
        for anchor, occ, where, t in f.inserts:
            hits = [mo for mo in re.finditer(anchor, text[bo:bc])]
            # keep only matches in code (mask equal to text at match start)
            hits = [h for h in hits if m[bo + h.start()] == text[bo + h.start()]]
            if len(hits) < occ:
                raise AnchorLost('%s: anchor /%s/ occurrence %d not found' % (item, anchor, occ))
            h = hits[occ - 1]
            if where == 'before':
                ins(rs.line_start(text, bo + h.start()), [sup(t + '\n')], seq=5)
            elif where == 'after':
                e = text.find('\n', bo + h.end())
                ins(e + 1, [sup(t + '\n')], seq=5)
            elif where == 'at':
                ins(bo + h.start(), [sup(t)], seq=5)
            elif where == 'at_end':
                ins(bo + h.end(), [sup(t)], seq=5)
            else:
                raise ValueError(where)

        # ---- global W-rules on the body
        if not f.no_w:
            taken = []
            for rid, rx, build in W_RULES:
                for h in rx.finditer(m, bo, bc):
                    if any(not (h.end() <= x or h.start() >= y) for x, y in taken):
                        continue
                    rs_ = recv_start(m, h.start())
                    if any(not (h.end() <= x or rs_ >= y) for x, y in taken):
                        continue
                    recv = w_rewrite_str(text[rs_:h.start()], self.rewrite_counts)
                    rep(rs_, h.end(), [Chunk(build(recv, re.match(rx, text[h.start():h.end()]) or h), 'rewrite', item=item)])
                    taken.append((rs_, h.end()))
                    self.rewrite_counts[rid] = self.rewrite_counts.get(rid, 0) + 1
            for rid, rx, repl in W_PREFIX_RULES:
                for h in rx.finditer(m, bo, bc):
                    rep(h.start(), h.end(), [Chunk(repl, 'rewrite', item=item)])
                    self.rewrite_counts[rid] = self.rewrite_counts.get(rid, 0) + 1

        # ---- W / A rewrites inside the function text
        for rid, rx, repl, count in f.rewrites:
            hits = [h for h in re.finditer(rx, text[a:loc['end']]) if m[a + h.start()] == text[a + h.start()]]
            lo_n, hi_n = count if isinstance(count, tuple) else (count, count)
            if not (lo_n <= len(hits) <= hi_n):
                raise AnchorLost('%s: rewrite %s /%s/: %d matches, expected %s' % (item, rid, rx, len(hits), count))
            for h in hits:
                rep(a + h.start(), a + h.end(), [Chunk(h.expand(repl), 'rewrite', item=item)])
            self.rewrite_counts[rid] = self.rewrite_counts.get(rid, 0) + len(hits)

        self._render(src, a, loc['end'], edits, item)
        self.add('\n')

    def _ret_span(self, m, fn_kw, sig_end):
        """Return (index of '->', end index of return type) in the signature, or (None, None)."""
        k = m.find('(', fn_kw)
        # skip generics `<...>` before the parameter list
        lt = m.find('<', fn_kw)
        if 0 <= lt < k:
            d = 0
            j = lt
            while j < sig_end:
                if m[j] == '<':
                    d += 1
                elif m[j] == '>' and m[j - 1] != '-':
                    d -= 1
                    if d == 0:
                        break
                j += 1
            k = m.find('(', j)
        pe = rs.match_brace(m, k)
        rest = m[pe + 1:sig_end]
        mo = re.match(r'\s*->', rest)
        if not mo:
            return None, None
        arrow = pe + 1 + mo.end() - 2
        # return type ends at top-level `where`
        d = 0
        j = arrow + 2
        while j < sig_end:
            ch = m[j]
            if ch in '(<[':
                d += 1
            elif ch in ')]':
                d -= 1
            elif ch == '>' and m[j - 1] != '-':
                d -= 1
            elif d == 0 and m.startswith('where', j) and not (m[j - 1].isalnum() or m[j - 1] == '_') \
                    and not (m[j + 5].isalnum() or m[j + 5] == '_'):
                return arrow, j
            j += 1
        return arrow, sig_end

    def _render(self, src, a, b, edits, item):
        """Apply edits to src.text[a:b] and emit chunks."""
        # normalise: sort by position; for equal positions higher seq first... we use (pos, -seq)
        edits = sorted(edits, key=lambda e: (e[0], -e[1]))
        pos = a
        for p, seq, e, chunks in edits:
            if p < pos:
                if e is None:
                    # insertion inside an already replaced region: emit right away
                    for c in chunks:
                        if c.text:
                            self.chunks.append(c)
                    continue
                raise AnchorLost('%s: overlapping edits at %d' % (item, p))
            self.repo_chunk(src, pos, p, item)
            for c in chunks:
                if c.text:
                    self.chunks.append(c)
            pos = p if e is None else e
        self.repo_chunk(src, pos, b, item)

    # -- output -------------------------------------------------------------------------------
    def render(self):
        out = []
        offs = []
        n = 0
        for c in self.chunks:
            offs.append(n)
            out.append(c.text)
            n += len(c.text.encode('utf-8'))
        self.offsets = offs
        return ''.join(out)

    def chunk_at(self, byte_off):
        import bisect
        i = bisect.bisect_right(self.offsets, byte_off) - 1
        return self.chunks[max(i, 0)], byte_off - self.offsets[max(i, 0)]


def eval_writeln_literals(repo, rel, fn_name, scope=None):
    """Evaluate the text a generator function writes with `writeln!(file, "literal")` calls that have
    no format arguments.  Used to obtain the generated enums (DerivedPropertyValue, BidiClass)
    from the generator's own source instead of re-typing them."""
    src = Source.get(repo, rel)
    loc = rs.find_fn(src.text, src.mask, fn_name, scope)
    body = src.text[loc['body_open']:loc['body_close']]
    out = []
    for mo in re.finditer(r'writeln!\(\s*file\s*(?:,\s*"((?:[^"\\]|\\.)*)"\s*)?,?\s*\)', body):
        s = mo.group(1) or ''
        s = s.replace('{{', '{').replace('}}', '}')
        s = s.encode('utf-8').decode('unicode_escape').encode('latin-1').decode('utf-8') if '\\' in s else s
        out.append(s)
    return '\n'.join(out) + '\n'
