"""Developer helper: generate + run verus + print mapped failures.  python3 -m vlib.dev lib [--module m]"""
import sys, os, argparse
from . import gen, verus
ap = argparse.ArgumentParser()
ap.add_argument('unit')
ap.add_argument('--repo', default='/repo')
ap.add_argument('--module', action='append', default=[])
ap.add_argument('--fn', default=None)
ap.add_argument('--raw', action='store_true')
a = ap.parse_args()
em = gen.gen_lib(a.repo) if a.unit == 'lib' else gen.gen_tools(a.repo)
os.makedirs('/tmp/vt', exist_ok=True)
path = '/tmp/vt/%s.rs' % a.unit
open(path, 'w').write(em.render())
extra = []
for m in a.module:
    extra += ['--verify-only-module', m]
if a.fn:
    extra += ['--verify-function', a.fn]
r = verus.run(path, em, extra)
if r.compile_error:
    print('COMPILE ERROR\n', r.compile_error)
    sys.exit(2)
for f in r.failures:
    print('FAIL [%s] %s in %s %s:%s\n     %s %s' % (f.tag, f.message, f.item, f.file, f.line, f.text[:160], f.detail[:400]))
    if a.raw: print(f.raw)
print('verified=%d errors=%d smt_ms=%d wall=%.1fs' % (r.verified, r.errors, r.smt_ms, r.wall_s))
slow = sorted(r.functions, key=lambda x: -x[2])[:5]
print('slowest:', [(n.split('::')[-1], ms) for n, _, ms, _, _ in slow])
