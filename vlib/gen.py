"""Generate the Verus input files from /repo's current working tree."""
import os
import sys
from .extract import Emitter, Source, Module

VERIF = os.path.dirname(os.path.dirname(os.path.abspath(__file__)))


def gen_lib(repo, only=None, probe=False):
    sys.path.insert(0, VERIF)
    from contracts import lib
    Source.reset()
    em = Emitter(repo, probe=probe)
    em.add(lib.ROOT_HEADER)
    em.add('verus! {\npub uninterp spec fn vx_probe(i: int) -> bool;\n')
    with open(os.path.join(VERIF, 'prelude', 'vx.rs'), encoding='utf-8') as f:
        em.add(f.read())
    for mod in lib.modules(repo):
        em.emit_module(mod)
    em.add('\n} // verus!\nfn main() {}\n')
    return em


def sources_of(unit):
    """repo-relative source files of a unit (for locating helper functions)"""
    sys.path.insert(0, VERIF)
    if unit == 'lib':
        from contracts import lib as m
    else:
        from contracts import tools as m
    out = []

    def walk(mods):
        for md in mods:
            if md.src:
                out.append(md.src)
            walk([i for i in md.items if isinstance(i, Module)])
    walk(m.modules('/repo'))
    return out


def gen_tools(repo, probe=False):
    sys.path.insert(0, VERIF)
    from contracts import tools
    Source.reset()
    em = Emitter(repo, probe=probe)
    em.add(tools.ROOT_HEADER)
    em.add('verus! {\npub uninterp spec fn vx_probe(i: int) -> bool;\n')
    for mod in tools.modules(repo):
        em.emit_module(mod)
    em.add('\n} // verus!\nfn main() {}\n')
    return em


if __name__ == '__main__':
    import argparse
    ap = argparse.ArgumentParser()
    ap.add_argument('unit', choices=['lib', 'tools'])
    ap.add_argument('--repo', default='/repo')
    ap.add_argument('--out', required=True)
    a = ap.parse_args()
    em = gen_lib(a.repo) if a.unit == 'lib' else gen_tools(a.repo)
    txt = em.render()
    with open(a.out, 'w', encoding='utf-8') as f:
        f.write(txt)
    for l in em.log:
        print('note:', l)
    print('rewrites:', em.rewrite_counts)
