"""Minimal Rust source scanner used by the extractor.

It does not parse Rust.  It computes a *mask* of a source text (same length, comments and the
contents of string / char literals blanked out) so that brace matching and regex searches only see
code, and offers helpers to locate items by name.  Anything it cannot locate raises AnchorLost,
which the driver turns into exit code 2 (undecided), never into a VIOLATION.
"""
import re


class AnchorLost(Exception):
    pass


def mask(text):
    """Return text with comments, string-literal contents and char-literal contents replaced by
    spaces (newlines kept).  Delimiters of string literals are kept as '"'."""
    out = list(text)
    n = len(text)
    i = 0

    def blank(a, b):
        for k in range(a, b):
            if out[k] != '\n':
                out[k] = ' '

    while i < n:
        c = text[i]
        if c == '/' and i + 1 < n and text[i + 1] == '/':
            j = text.find('\n', i)
            if j < 0:
                j = n
            blank(i, j)
            i = j
        elif c == '/' and i + 1 < n and text[i + 1] == '*':
            depth = 1
            j = i + 2
            while j < n and depth > 0:
                if text.startswith('/*', j):
                    depth += 1
                    j += 2
                elif text.startswith('*/', j):
                    depth -= 1
                    j += 2
                else:
                    j += 1
            blank(i, j)
            i = j
        elif c == '"' or (c in 'rb' and re.match(r'(br|r|b)#*"', text[i:i + 12]) and
                          (i == 0 or not (text[i - 1].isalnum() or text[i - 1] == '_'))):
            m = re.match(r'(br|r|b)?(#*)"', text[i:i + 12])
            raw = m.group(1) in ('r', 'br')
            hashes = m.group(2)
            j = i + m.end()
            if raw:
                end = text.find('"' + hashes, j)
                if end < 0:
                    end = n
                blank(j, end)
                i = end + 1 + len(hashes)
            else:
                while j < n and text[j] != '"':
                    if text[j] == '\\':
                        j += 1
                    j += 1
                blank(i + m.end(), j)
                i = j + 1
        elif c == "'":
            # char literal or lifetime
            m = re.match(r"'(\\u\{[0-9a-fA-F_]+\}|\\x[0-9a-fA-F]{2}|\\.|[^\\'])'", text[i:i + 14])
            if m:
                blank(i + 1, i + m.end() - 1)
                i += m.end()
            else:
                i += 1
        else:
            i += 1
    return ''.join(out)


def match_brace(m, open_idx):
    """m: masked text; open_idx: index of '{', '(' or '['.  Returns index of the matching closer."""
    pairs = {'{': '}', '(': ')', '[': ']'}
    o = m[open_idx]
    c = pairs[o]
    depth = 0
    for k in range(open_idx, len(m)):
        ch = m[k]
        if ch == o:
            depth += 1
        elif ch == c:
            depth -= 1
            if depth == 0:
                return k
    raise AnchorLost('unbalanced %s at %d' % (o, open_idx))


def line_of(text, idx):
    return text.count('\n', 0, idx) + 1


def line_start(text, idx):
    return text.rfind('\n', 0, idx) + 1


def find_block(text, m, header_re, start=0, end=None):
    """Find first match of header_re (on masked text) in [start,end) followed by a '{' block.
    Returns (hdr_start, open_idx, close_idx)."""
    rx = re.compile(header_re)
    mo = rx.search(m, start, end if end is not None else len(m))
    if not mo:
        raise AnchorLost('block header not found: %s' % header_re)
    open_idx = m.find('{', mo.end() - 1 if m[mo.end() - 1] == '{' else mo.end())
    if open_idx < 0:
        raise AnchorLost('no body for %s' % header_re)
    close_idx = match_brace(m, open_idx)
    return mo.start(), open_idx, close_idx


def depth1_positions(m, open_idx, close_idx, rx):
    """Yield match objects of rx inside (open_idx, close_idx) that sit at brace depth 1 relative to
    the block."""
    depth = 0
    k = open_idx
    res = []
    for mo in re.finditer(rx, m[open_idx:close_idx + 1]):
        res.append(mo)
    out = []
    # compute depth at each match start
    depths = []
    d = 0
    pos = open_idx
    idx = 0
    starts = [open_idx + mo.start() for mo in res]
    for k in range(open_idx, close_idx + 1):
        while idx < len(starts) and starts[idx] == k:
            depths.append(d)
            idx += 1
        ch = m[k]
        if ch == '{':
            d += 1
        elif ch == '}':
            d -= 1
    for mo, d in zip(res, depths):
        if d == 1:
            out.append(open_idx + mo.start())
    return out


def find_fn(text, m, name, scope=None):
    """Locate function `name` (optionally inside the block whose header matches regex `scope`).
    Returns dict(start, fn_kw, body_open, body_close, end) with indices into text.  `start` includes
    leading attributes / doc comments / visibility on the preceding lines."""
    lo, hi = 0, len(text)
    want_depth_block = None
    if scope is not None:
        hs, o, c = find_block(text, m, scope)
        lo, hi = o, c
        want_depth_block = (o, c)
    rx = re.compile(r'\bfn\s+' + re.escape(name) + r'\b')
    cands = []
    if want_depth_block:
        for p in depth1_positions(m, lo, hi, rx):
            cands.append(p)
    else:
        # top level: brace depth 0
        d = 0
        starts = {mo.start() for mo in rx.finditer(m)}
        for k, ch in enumerate(m):
            if k in starts and d == 0:
                cands.append(k)
            if ch == '{':
                d += 1
            elif ch == '}':
                d -= 1
    if len(cands) != 1:
        raise AnchorLost('fn %s (scope %s): %d candidates' % (name, scope, len(cands)))
    fn_kw = cands[0]
    # signature ends at first '{' or ';' at paren depth 0
    k = fn_kw
    pd = 0
    body_open = None
    while k < len(m):
        ch = m[k]
        if ch in '([':
            pd += 1
        elif ch in ')]':
            pd -= 1
        elif ch == '{' and pd == 0:
            body_open = k
            break
        elif ch == ';' and pd == 0:
            break
        k += 1
    if body_open is None:
        return dict(start=_item_start(text, m, fn_kw), fn_kw=fn_kw, body_open=None, body_close=None, end=k + 1)
    body_close = match_brace(m, body_open)
    return dict(start=_item_start(text, m, fn_kw), fn_kw=fn_kw, body_open=body_open, body_close=body_close,
                end=body_close + 1)


def _item_start(text, m, kw_idx):
    """Start of the item whose keyword is at kw_idx: beginning of its line, extended upwards over
    attribute lines and comment lines directly attached."""
    s = line_start(text, kw_idx)
    while s > 0:
        prev_s = line_start(text, s - 1)
        line = text[prev_s:s - 1].strip()
        mline = m[prev_s:s - 1].strip()
        if line.startswith('#[') or line.startswith('///') or (line.startswith('//') and not line.startswith('//!')):
            s = prev_s
            continue
        # multi-line attribute tail e.g. `)]`
        break
    return s


def find_item(text, m, header_re):
    """Locate a braced item (enum/struct/impl/trait/mod) or a `;`-terminated item (const/static/
    tuple struct) by header regex at depth 0.  Returns (start, end) covering attributes."""
    rx = re.compile(header_re)
    d = 0
    starts = {mo.start(): mo for mo in rx.finditer(m)}
    hit = None
    for k, ch in enumerate(m):
        if k in starts and d == 0:
            hit = starts[k]
            break
        if ch == '{':
            d += 1
        elif ch == '}':
            d -= 1
    if hit is None:
        raise AnchorLost('item not found: %s' % header_re)
    k = hit.end()
    pd = 0
    while k < len(m):
        ch = m[k]
        if ch in '([':
            pd += 1
        elif ch in ')]':
            pd -= 1
        elif ch == '{' and pd == 0:
            e = match_brace(m, k)
            return _item_start(text, m, hit.start()), e + 1
        elif ch == ';' and pd == 0:
            return _item_start(text, m, hit.start()), k + 1
        k += 1
    raise AnchorLost('unterminated item: %s' % header_re)


LOOP_RX = re.compile(r'\b(for|while|loop)\b')


def find_loops(m, body_open, body_close):
    """Loops in textual order inside a function body.  Each: dict(kw, kw_idx, open, close, kind)."""
    res = []
    for mo in LOOP_RX.finditer(m, body_open, body_close):
        kw = mo.group(1)
        k = mo.start()
        # `for<'b>` HRTB in types is not a loop
        rest = m[mo.end():mo.end() + 2]
        if kw == 'for' and rest.lstrip().startswith('<'):
            continue
        # find the '{' opening the loop body: first '{' at paren depth 0
        pd = 0
        j = mo.end()
        op = None
        while j < body_close:
            ch = m[j]
            if ch in '([':
                pd += 1
            elif ch in ')]':
                pd -= 1
            elif ch == '{' and pd == 0:
                op = j
                break
            elif ch == ';' and pd == 0:
                break
            j += 1
        if op is None:
            continue
        res.append(dict(kind=kw, kw_idx=k, kw_end=mo.end(), open=op, close=match_brace(m, op)))
    return res
