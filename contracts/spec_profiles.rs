// SPEC (ghost only) for the profile crate: per-character mappings and the RFC 8265 / RFC 8266 pipelines
// as functions from string contents to Result<contents, Error>.
use crate::precis_core::stringclasses::{allows_spec, allows_from, lemma_allows_from, lemma_allowed_no_bad};
use crate::precis_profiles::bidi::BidiClass;

pub type SRes = Result<Seq<char>, Error>;

// ---- case mapping: every character replaced by its full lowercase mapping (char::to_lowercase)
pub open spec fn lower_seq(s: Seq<char>) -> Seq<char>
    decreases s.len()
{
    if s.len() == 0 { Seq::<char>::empty() } else { lower_seq(s.drop_last()) + spec_lower(s.last()) }
}
pub proof fn lemma_lower_push(s: Seq<char>, c: char)
    ensures lower_seq(s.push(c)) == lower_seq(s) + spec_lower(c)
{
    assert(s.push(c).drop_last() =~= s);
}
// a prefix in which no character has a lowercase mapping other than itself is its own lowercase form
pub proof fn lemma_lower_id(s: Seq<char>)
    requires forall|i: int| 0 <= i < s.len() ==> spec_lower(#[trigger] s[i]) == seq![s[i]]
    ensures lower_seq(s) == s
    decreases s.len()
{
    if s.len() > 0 {
        lemma_lower_id(s.drop_last());
        assert(s.drop_last() + seq![s.last()] =~= s);
    }
}
// ledger `lower_of_lowercase` (Kani, all chars, real std): a Lowercase character maps to itself
pub broadcast axiom fn axiom_lower_of_lowercase(c: char)
    ensures #[trigger] spec_is_lower(c) ==> spec_lower(c) == seq![c];

// ---- width mapping: characters with a <wide> / <narrow> decomposition are replaced by its code point
pub uninterp spec fn t_width(cp: u32) -> Option<u32>;
pub open spec fn is_scalar(v: u32) -> bool { v <= 0xD7FF || (0xE000 <= v <= 0x10FFFF) }
// ledger `width_values_scalar` (Kani over the real table): every mapped value is a Unicode scalar value
pub broadcast axiom fn axiom_width_scalar(cp: u32)
    ensures (#[trigger] t_width(cp)) matches Some(d) ==> is_scalar(d);
pub open spec fn width_char(c: char) -> char {
    match t_width(c as u32) { Some(d) => d as char, None => c }
}
pub open spec fn width_str(s: Seq<char>) -> Seq<char> { s.map_values(|c: char| width_char(c)) }

// ledger `width_idempotent` (Kani over the real table): a mapped value has no mapping itself
pub broadcast axiom fn axiom_width_idem(cp: u32)
    ensures (#[trigger] t_width(cp)) matches Some(d) ==> t_width(d) is None;
pub proof fn lemma_width_idempotent(s: Seq<char>)
    ensures width_str(width_str(s)) == width_str(s)
{
    broadcast use axiom_width_idem, axiom_width_scalar;
    assert forall|i: int| 0 <= i < s.len() implies width_char(width_char(s[i])) == width_char(s[i]) by {
        let c = s[i];
        match t_width(c as u32) {
            Some(d) => { axiom_width_idem(c as u32); axiom_width_scalar(c as u32); assert((d as char) as u32 == d); },
            None => {},
        }
    }
    assert(width_str(width_str(s)) =~= width_str(s));
}

// ---- bidi classes (profile crate tables, ledger `tbl_bidi`)
pub uninterp spec fn t_bidi(cp: u32) -> BidiClass;
pub open spec fn bidi_of(c: char) -> BidiClass { t_bidi(c as u32) }
pub open spec fn is_rtl_class(b: BidiClass) -> bool { b == BidiClass::R || b == BidiClass::AL || b == BidiClass::AN }
pub open spec fn has_rtl_spec(s: Seq<char>) -> bool { exists|i: int| 0 <= i < s.len() && is_rtl_class(#[trigger] bidi_of(s[i])) }

// ---- class acceptance for the two standard classes
pub open spec fn ff_vf() -> spec_fn(char) -> DerivedPropertyValue { |c: char| rfc8264_derived(c as u32, false) }
pub open spec fn id_vf() -> spec_fn(char) -> DerivedPropertyValue { |c: char| rfc8264_derived(c as u32, true) }
pub open spec fn ff_allows(l: Seq<char>) -> Result<(), Error> { allows_spec(ff_vf(), l) }
pub open spec fn id_allows(l: Seq<char>) -> Result<(), Error> { allows_spec(id_vf(), l) }

pub open spec fn non_empty(x: Seq<char>) -> SRes { if x.len() == 0 { Err(Error::Invalid) } else { Ok(x) } }

// ---- RFC 8265 4.2 OpaqueString; RFC 8266 2 Nickname share the preparation: non-empty + FreeformClass
pub open spec fn freeform_prepare(s: Seq<char>) -> SRes {
    if s.len() == 0 { Err(Error::Invalid) } else { match ff_allows(s) { Err(e) => Err(e), Ok(_) => Ok(s) } }
}
pub open spec fn opaque_enforce(s: Seq<char>) -> SRes {
    match freeform_prepare(s) { Err(e) => Err(e), Ok(p) => non_empty(spec_nfc(map_sp(p))) }
}

// ---- RFC 8265 3.3 / 3.4 usernames
pub open spec fn user_prepare(s: Seq<char>) -> SRes {
    let w = width_str(s);
    if w.len() == 0 { Err(Error::Invalid) } else { match id_allows(w) { Err(e) => Err(e), Ok(_) => Ok(w) } }
}
// the directionality rule as implemented: label unchanged, or Invalid
pub open spec fn dir_rule(n: Seq<char>) -> SRes {
    if has_rtl_spec(n) && !bidi_rule_impl(n) { Err(Error::Invalid) } else { Ok(n) }
}
pub open spec fn user_enforce(s: Seq<char>, case_mapped: bool) -> SRes {
    match user_prepare(s) {
        Err(e) => Err(e),
        Ok(w) => {
            let c = if case_mapped { lower_seq(w) } else { w };
            let n = spec_nfc(c);
            if n.len() == 0 { Err(Error::Invalid) } else { dir_rule(n) }
        },
    }
}

// ---- RFC 8266 2.3 / 2.4 Nickname: one application of the rules, iterated by stabilize
pub open spec fn nick_step(x: Seq<char>) -> SRes {
    match freeform_prepare(x) { Err(e) => Err(e), Ok(p) => non_empty(spec_nfkc(collapse(p))) }
}
pub open spec fn nick_cmp_step(x: Seq<char>) -> SRes {
    match freeform_prepare(x) { Err(e) => Err(e), Ok(p) => Ok(spec_nfkc(lower_seq(collapse(p)))) }
}
pub open spec fn nick_step_fn() -> spec_fn(Seq<char>) -> SRes { |x: Seq<char>| nick_step(x) }
pub open spec fn nick_cmp_step_fn() -> spec_fn(Seq<char>) -> SRes { |x: Seq<char>| nick_cmp_step(x) }
pub open spec fn nick_enforce(s: Seq<char>) -> SRes { stab(nick_step_fn(), s, 3) }
pub open spec fn nick_canon(s: Seq<char>) -> SRes { stab(nick_cmp_step_fn(), s, 3) }

// ---- compare: equality of comparison forms, first operand's error first
pub open spec fn cmp_spec(a: SRes, b: SRes) -> Result<bool, Error> {
    match a { Err(e) => Err(e), Ok(x) => match b { Err(e) => Err(e), Ok(y) => Ok(x == y) } }
}

// compare is an equivalence on accepted strings (for any canonical-form function `canon`)
pub proof fn lemma_cmp_equivalence(a: SRes, b: SRes, c: SRes)
    ensures
        a is Ok ==> cmp_spec(a, a) == Ok::<bool, Error>(true),
        (a is Ok && b is Ok) ==> cmp_spec(a, b) == cmp_spec(b, a),
        (cmp_spec(a, b) == Ok::<bool, Error>(true) && cmp_spec(b, c) == Ok::<bool, Error>(true)) ==> cmp_spec(a, c) == Ok::<bool, Error>(true),
        (a is Ok && b is Ok) ==> (cmp_spec(a, b) == Ok::<bool, Error>(a == b)),
        (a is Err || b is Err) ==> cmp_spec(a, b) is Err,
{
}

// ---- stab: an accepted result is a fixed point of the step function and is re-accepted unchanged
pub proof fn lemma_stab_fixed(st: spec_fn(Seq<char>) -> SRes, s: Seq<char>, fuel: nat)
    ensures stab(st, s, fuel) matches Ok(x) ==> st(x) == Ok::<Seq<char>, Error>(x) && (forall|k: nat| stab(st, x, k) == Ok::<Seq<char>, Error>(x))
    decreases fuel
{
    match st(s) {
        Err(e) => {},
        Ok(y) => if y == s { } else if fuel == 0 { } else { lemma_stab_fixed(st, y, (fuel - 1) as nat); },
    }
}

// C06/C08 for Nickname: every accepted result is a fixed point of the rules, contains no code point that is
// disallowed or unassigned in FreeformClass, and enforcing it again returns it unchanged.
pub proof fn lemma_nick_enforce_stable(s: Seq<char>)
    ensures nick_enforce(s) matches Ok(e) ==> nick_step(e) == Ok::<Seq<char>, Error>(e) && nick_enforce(e) == Ok::<Seq<char>, Error>(e)
        && ff_allows(e) is Ok && e.len() > 0 && (forall|j: int| 0 <= j < e.len() ==> !val_bad(rfc8264_derived(#[trigger] e[j] as u32, false)))
{
    lemma_stab_fixed(nick_step_fn(), s, 3);
    if nick_enforce(s) is Ok {
        let e = nick_enforce(s)->Ok_0;
        assert(nick_step_fn()(e) == nick_step(e));
        lemma_allowed_no_bad(ff_vf(), e);
        assert forall|j: int| 0 <= j < e.len() implies !val_bad(rfc8264_derived(#[trigger] e[j] as u32, false)) by {
            assert(ff_vf()(e[j]) == rfc8264_derived(e[j] as u32, false));
        }
    }
}

// ---- C08 for the profiles that do not re-validate (usernames, OpaqueString): "no forbidden code point in the output"
// follows from the pipeline contracts GIVEN facts about what runs after validation.
// UNCHECKED assumption about the external normaliser (no contract on precis code can discharge it):
pub axiom fn axiom_nfc_keeps_valid(s: Seq<char>, id: bool)
    requires forall|i: int| 0 <= i < s.len() ==> !val_bad(rfc8264_derived(#[trigger] s[i] as u32, id))
    ensures forall|j: int| 0 <= j < spec_nfc(s).len() ==> !val_bad(rfc8264_derived(#[trigger] spec_nfc(s)[j] as u32, id));
// ledger `x_derived` (exhaustive native evaluation of the real classification, kind X): U+0020 is FREE_PVAL
pub axiom fn axiom_space_freeform()
    ensures rfc8264_derived(0x20, false) == DerivedPropertyValue::SpecClassPval;
// ledger `x_lower_valid` (exhaustive native, kind X; the listed known finding is exactly the excluded interval):
// lowercasing a character that is valid in IdentifierClass never yields a forbidden code point
pub open spec fn cherokee_known(c: char) -> bool { 0x13A0 <= c as u32 <= 0x13F4 }
pub axiom fn axiom_lower_keeps_valid(c: char)
    requires !val_bad(rfc8264_derived(c as u32, true)), !cherokee_known(c)
    ensures forall|j: int| 0 <= j < spec_lower(c).len() ==> !val_bad(rfc8264_derived(#[trigger] spec_lower(c)[j] as u32, true));

pub proof fn lemma_lower_seq_keeps_valid(w: Seq<char>)
    requires forall|i: int| 0 <= i < w.len() ==> !val_bad(rfc8264_derived(#[trigger] w[i] as u32, true)) && !cherokee_known(w[i])
    ensures forall|j: int| 0 <= j < lower_seq(w).len() ==> !val_bad(rfc8264_derived(#[trigger] lower_seq(w)[j] as u32, true))
    decreases w.len()
{
    if w.len() > 0 {
        let q = w.drop_last();
        assert forall|i: int| 0 <= i < q.len() implies !val_bad(rfc8264_derived(#[trigger] q[i] as u32, true)) && !cherokee_known(q[i]) by { assert(q[i] == w[i]); }
        lemma_lower_seq_keeps_valid(q);
        axiom_lower_keeps_valid(w.last());
        let a = lower_seq(q);
        let b = spec_lower(w.last());
        assert(lower_seq(w) == a + b);
        assert forall|j: int| 0 <= j < lower_seq(w).len() implies !val_bad(rfc8264_derived(#[trigger] lower_seq(w)[j] as u32, true)) by {
            if j < a.len() { assert((a + b)[j] == a[j]); } else { assert((a + b)[j] == b[j - a.len()]); }
        }
    }
}

// [C08] OpaqueString: an enforced string has no DISALLOWED / UNASSIGNED code point of FreeformClass
pub proof fn lemma_opaque_enforce_no_bad(s: Seq<char>)
    ensures opaque_enforce(s) matches Ok(e) ==> forall|j: int| 0 <= j < e.len() ==> !val_bad(rfc8264_derived(#[trigger] e[j] as u32, false))
{
    if opaque_enforce(s) is Ok {
        lemma_allowed_no_bad(ff_vf(), s);
        axiom_space_freeform();
        let m = map_sp(s);
        assert forall|i: int| 0 <= i < m.len() implies !val_bad(rfc8264_derived(#[trigger] m[i] as u32, false)) by {
            assert(ff_vf()(s[i]) == rfc8264_derived(s[i] as u32, false));
            assert(!val_bad(ff_vf()(s[i])));
        }
        axiom_nfc_keeps_valid(m, false);
    }
}
// [C08] usernames: the same for IdentifierClass; for the case-mapped profile outside the listed Cherokee finding
pub proof fn lemma_user_enforce_no_bad(s: Seq<char>, case_mapped: bool)
    requires case_mapped ==> forall|i: int| 0 <= i < width_str(s).len() ==> !cherokee_known(#[trigger] width_str(s)[i])
    ensures user_enforce(s, case_mapped) matches Ok(e) ==> forall|j: int| 0 <= j < e.len() ==> !val_bad(rfc8264_derived(#[trigger] e[j] as u32, true))
{
    if user_enforce(s, case_mapped) is Ok {
        let w = width_str(s);
        lemma_allowed_no_bad(id_vf(), w);
        assert forall|i: int| 0 <= i < w.len() implies !val_bad(rfc8264_derived(#[trigger] w[i] as u32, true)) by {
            assert(id_vf()(w[i]) == rfc8264_derived(w[i] as u32, true));
            assert(!val_bad(id_vf()(w[i])));
        }
        if case_mapped {
            lemma_lower_seq_keeps_valid(w);
            axiom_nfc_keeps_valid(lower_seq(w), true);
        } else {
            axiom_nfc_keeps_valid(w, true);
        }
    }
}
