"""precis-core/src/context.rs: the nine RFC 5892 Appendix A rules and the registry."""
from vlib.extract import Fn, Impl, Verbatim, Text, Module, Loop
from .lib_common import BROADCAST, FACTS

HEADER = '''use super::*;
use crate::vx::*;
use crate::spec::*;
use crate::precis_core::common;
''' + BROADCAST

# `pub type ContextRule = fn(&str, usize) -> Result<bool, ContextRuleError>` : Verus has no function
# pointer types.  A-rule: the alias is carried as an opaque type; which function a value denotes is
# `rule_id`, and calling it goes through vx_call_rule whose contract is "behaves as the named rule".
CONTEXT_RULE_TYPE = '''
#[verifier::external_body]
pub struct ContextRule(fn(&str, usize) -> Result<bool, ContextRuleError>);
pub uninterp spec fn rule_id(r: ContextRule) -> RuleId;

// W.call_rule: `rule(label, offset)` through a function pointer
#[verifier::external_body]
pub fn vx_call_rule(rule: ContextRule, s: &str, offset: usize) -> (r: Result<bool, ContextRuleError>)
    ensures r == rule_spec(rule_id(rule), s@, offset as int)
{ (rule.0)(s, offset) }
'''


def rule(name, rid, loops=None, head='', inserts=()):
    return Fn(name, ret='r',
              ensures=[('C03.%s' % name, 'r == rule_spec(RuleId::%s, s@, offset as int)' % rid)],
              loops=loops or {}, head=head, inserts=list(inserts))


def module(repo):
    zwnj = rule('rule_zero_width_nonjoiner', 'Zwnj', loops={
        1: Loop(invariants=[
            ('C01+C03.zwnj_back_i', '0 <= i < offset && (offset as int) < s@.len()'),
            ('C03.zwnj_back_cp', 'cp == cpo(s@, i as int)'),
            ('C03.zwnj_back_own', 'cpo(s@, offset as int) == 0x200c && !t_virama(cpo(s@, offset as int - 1))'),
            ('C03.zwnj_back_scan', 'scan_back(s@, offset as int - 1) == scan_back(s@, i as int)'),
        ], decreases='i', head='proof { assert(scan_back(s@, i as int) == scan_back(s@, i as int - 1)); assert(scan_back(s@, -1) is None); }'),
        2: Loop(invariants=[
            ('C01+C03.zwnj_fwd_i', '(offset as int) < i && (i as int) < s@.len()'),
            ('C03.zwnj_fwd_cp', 'cp == cpo(s@, i as int)'),
            ('C03.zwnj_fwd_own', 'cpo(s@, offset as int) == 0x200c && offset > 0 && !t_virama(cpo(s@, offset as int - 1))'),
            ('C03.zwnj_fwd_left', 'scan_back(s@, offset as int - 1) is Some && (t_left_joining(cpo(s@, scan_back(s@, offset as int - 1)->Some_0)) || t_dual_joining(cpo(s@, scan_back(s@, offset as int - 1)->Some_0)))'),
            ('C03.zwnj_fwd_scan', 'scan_fwd(s@, offset as int + 1) == scan_fwd(s@, i as int)'),
        ], decreases='s@.len() - i', head='proof { assert(scan_fwd(s@, i as int) == scan_fwd(s@, i as int + 1)); assert(scan_fwd(s@, s@.len() as int) is None); }'),
    })
    kata = rule('rule_katakana_middle_dot', 'KatakanaMiddleDot', loops={
        1: Loop(ghost='it', invariants=[
            ('C03.kata_seq', 'it.seq() == s@'),
            ('C03.kata_own', 'in_label(s@, offset as int) && cpo(s@, offset as int) == 0x30fb'),
            ('C03.kata_none', 'forall|j: int| 0 <= j < it.index@ ==> !#[trigger] kana_or_han(cpo(s@, j))'),
        ], head='proof { assert(kana_or_han(cpo(s@, it.index@ as int)) == kana_or_han(c as u32)); }'),
    })
    arab = rule('rule_arabic_indic_digits', 'ArabicIndic', loops={
        1: Loop(ghost='it', invariants=[
            ('C03.arab_seq', 'it.seq() == s@'),
            ('C03.arab_own', 'in_label(s@, offset as int) && arabic_indic(cpo(s@, offset as int))'),
            ('C03.arab_range', 'range@.start == 0x06f0 && range@.end == 0x06f9 && !range@.exhausted'),
            ('C03.arab_none', 'forall|j: int| 0 <= j < it.index@ ==> !#[trigger] ext_arabic_indic(cpo(s@, j))'),
        ], head='proof { assert(ext_arabic_indic(cpo(s@, it.index@ as int)) == ext_arabic_indic(c as u32)); }'),
    })
    ext = rule('rule_extended_arabic_indic_digits', 'ExtArabicIndic', loops={
        1: Loop(ghost='it', invariants=[
            ('C03.ext_seq', 'it.seq() == s@'),
            ('C03.ext_own', 'in_label(s@, offset as int) && ext_arabic_indic(cpo(s@, offset as int))'),
            ('C03.ext_range', 'range@.start == 0x0660 && range@.end == 0x0669 && !range@.exhausted'),
            ('C03.ext_none', 'forall|j: int| 0 <= j < it.index@ ==> !#[trigger] arabic_indic(cpo(s@, j))'),
        ], head='proof { assert(arabic_indic(cpo(s@, it.index@ as int)) == arabic_indic(c as u32)); }'),
    })
    return Module('context', 'precis-core/src/context.rs', [
        Fn('after', ret='r', requires=[('REQ.after', 'offset < usize::MAX')],
           ensures=[('C03.after', 'r == (if in_label(s@, offset as int + 1) { Some(s@[offset as int + 1]) } else { None::<char> })')]),
        Fn('before', ret='r',
           ensures=[('C03.before', 'r == (if in_label(s@, offset as int - 1) { Some(s@[offset as int - 1]) } else { None::<char> })')]),
        Verbatim(r'pub\s+enum\s+ContextRuleError\b'),
        zwnj,
        rule('rule_zero_width_joiner', 'Zwj'),
        rule('rule_middle_dot', 'MiddleDot'),
        rule('rule_greek_lower_numeral_sign_keraia', 'Keraia'),
        rule('rule_hebrew_punctuation', 'HebrewPunct'),
        kata, arab, ext,
        Text(CONTEXT_RULE_TYPE),
        # registry: a match on cp returning function pointers; verified by Kani for all u32 (ledger registry)
        Fn('get_context_rule', ret='r', mode='sig',
           ensures=[('LEDGER.registry', 'match r { Some(f) => registry(cp) == Some(rule_id(f)), None => registry(cp) is None }')]),
    ], header=HEADER)
