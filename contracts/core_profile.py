"""precis-core/src/profile.rs"""
from vlib.extract import Fn, Impl, Verbatim, Text, Module, Loop
from .lib_common import BROADCAST, FACTS

HEADER = '''use super::*;
use crate::vx::*;
use crate::spec::*;
use crate::precis_core::error::{Error, UnexpectedError};
''' + BROADCAST

NOT_APPLICABLE = 'r == Err::<Cow<str>, Error>(Error::Unexpected(UnexpectedError::ProfileRuleNotApplicable))'

INTO_S = ('REQ.into', "<S as IntoSpec<Cow<'a, str>>>::obeys_into_spec()")
INTO_T = ('REQ.into', "<T as IntoSpec<Cow<'a, str>>>::obeys_into_spec()")
S0 = "IntoSpec::<Cow<str>>::into_spec(s)@"

stabilize = Fn(
    'stabilize', ret='res',
    requires=[
        ('REQ.into', "<S as IntoSpec<Cow<'a, str>>>::obeys_into_spec()"),
        ('REQ.f_total', 'forall|x: &str| call_requires(f, (x,))'),
    ],
    ensures=[
        ('C13.fixpoint', 'res matches Ok(x) ==> f_ok(f, x@, x@) && exists|n: nat| n <= 3 && #[trigger] chain(f, %s, x@, n)' % S0),
        ('C13.error', 'res matches Err(e) ==> (exists|x: Seq<char>, n: nat| #[trigger] chain(f, %s, x, n) && f_err(f, x, e))'
                      ' || (e == Error::Invalid && exists|x: Seq<char>| #[trigger] chain(f, %s, x, 4))' % (S0, S0)),
        ('C13.deterministic', 'forall|st: spec_fn(Seq<char>) -> Result<Seq<char>, Error>| refines(f, st) ==> res_view(res) == #[trigger] stab(st, %s, 3)' % S0),
    ],
    head=FACTS + '\nlet ghost s0 = %s;' % S0,
    loops={1: Loop(
        ghost='it',
        invariants=[
            ('C13.inv_req', 'forall|x: &str| call_requires(f, (x,))'),
            ('C13.inv_chain', 'chain(f, s0, c@, it.index@ as nat)'),
            ('C13.inv_s0', 's0 == %s' % S0),
            ('C13.inv_stab', 'forall|st: spec_fn(Seq<char>) -> Result<Seq<char>, Error>| refines(f, st) ==> #[trigger] stab(st, s0, 3) == (if it.index@ <= 3 { stab(st, c@, (3 - it.index@) as nat) } else { Err::<Seq<char>, Error>(Error::Invalid) })'),
        ],
        head=FACTS + '\nlet ghost oldc = c@;',
        tail='''proof {
    assert(it.index@ >= 0);
    chain_step(f, s0, oldc, c@, it.index@ as nat);
    assert forall|st: spec_fn(Seq<char>) -> Result<Seq<char>, Error>| refines(f, st) implies
        #[trigger] stab(st, s0, 3) == (if it.index@ + 1 <= 3 { stab(st, c@, (3 - (it.index@ + 1)) as nat) } else { Err::<Seq<char>, Error>(Error::Invalid) }) by {
        assert(st(oldc) == Ok::<Seq<char>, Error>(c@));
        assert(stab(st, s0, 3) == stab(st, oldc, (3 - it.index@) as nat));
    }
}''',
    )},
)


def module(repo):
    rules = ['width_mapping_rule', 'additional_mapping_rule', 'case_mapping_rule', 'normalization_rule', 'directionality_rule']
    return Module('profile', 'precis-core/src/profile.rs', [
        Impl(r'pub\s+trait\s+Rules\b', [Fn(n, ret='r', requires=[INTO_T]) for n in rules]),
        Impl(r'pub\s+trait\s+Profile\b', [Fn('prepare', requires=[INTO_S]), Fn('enforce', requires=[INTO_S]), Fn('compare')]),
        Impl(r'pub\s+trait\s+PrecisFastInvocation\b', [Fn('prepare', requires=[INTO_S]), Fn('enforce', requires=[INTO_S]), Fn('compare')]),
        stabilize,
    ], header=HEADER)
