"""precis-core/src/common.rs: table lookups.  Bodies are binary searches over generated tables; they
are verified by Kani on the real tables (ledger tbl_*), here only their signatures are extracted and the
ledger contract is attached."""
from vlib.extract import Fn, Impl, Verbatim, Text, Module, Loop
from .lib_common import BROADCAST, FACTS

BOOL_FNS = [
    ('is_letter_digit', 't_letter_digit'), ('is_join_control', 't_join_control'),
    ('is_old_hangul_jamo', 't_old_hangul_jamo'), ('is_unassigned', 't_unassigned'), ('is_ascii7', 't_ascii7'),
    ('is_control', 't_control'), ('is_precis_ignorable_property', 't_precis_ignorable'), ('is_space', 't_space'),
    ('is_symbol', 't_symbol'), ('is_punctuation', 't_punctuation'), ('is_other_letter_digit', 't_other_letter_digit'),
('is_virama', 't_virama'), ('is_greek', 't_greek'), ('is_hebrew', 't_hebrew'),
    ('is_hiragana', 't_hiragana'), ('is_katakana', 't_katakana'), ('is_han', 't_han'),
    ('is_dual_joining', 't_dual_joining'), ('is_left_joining', 't_left_joining'),
    ('is_right_joining', 't_right_joining'), ('is_transparent', 't_transparent'),
]


def module(repo):
    items = [
        Fn('get_exception_val', ret='r', mode='sig',
           ensures=[('LEDGER.tbl_exceptions', 'match r { Some(v) => t_exception(cp) == Some(*v), None => t_exception(cp) is None }')]),
        Fn('get_backward_compatible_val', ret='r', mode='sig',
           ensures=[('LEDGER.tbl_backward_compatible', 'match r { Some(v) => t_backward_compatible(cp) == Some(*v), None => t_backward_compatible(cp) is None }')]),
    ]
    for fn, sp in BOOL_FNS:
        items.append(Fn(fn, ret='r', mode='sig', ensures=[('LEDGER.tbl_%s' % fn, 'r == %s(cp)' % sp)]))
    # has_compat: real body; HasCompat (RFC 8264 9.17) is DEFINED as "NFKC(cp) != cp" over the uninterpreted normaliser
    items.append(Fn('has_compat', ret='r', head=FACTS,
                    ensures=[('C14+C01.has_compat', 'r == t_has_compat(cp)')]))
    return Module('common', 'precis-core/src/common.rs', items,
                  header='use super::*;\nuse crate::vx::*;\nuse crate::spec::*;\nuse crate::precis_core::DerivedPropertyValue;\n' + BROADCAST)
