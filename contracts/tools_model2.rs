// MODEL (trusted) of the raw row type `ucd_parse::UnicodeData` and of `ucd_parse::parse`, as used by
// precis_tools::ucd_parsers::UnicodeData::parse.  Whether a raw row is a `<.., First>` / `<.., Last>` marker is an
// uninterpreted predicate of the row (ucd-parse decides it from the name field).
#[derive(Clone, Copy, Debug, PartialEq, Eq)]
pub enum UnicodeDataNumeric { Integer(i64), Rational(i64, i64) }

pub struct RawUnicodeData {
    pub codepoint: Codepoint,
    pub name: String,
    pub general_category: String,
    pub canonical_combining_class: u8,
    pub bidi_class: String,
    pub decomposition: UnicodeDataDecomposition,
    pub numeric_type_decimal: Option<u8>,
    pub numeric_type_digit: Option<u8>,
    pub numeric_type_numeric: Option<UnicodeDataNumeric>,
    pub bidi_mirrored: bool,
    pub unicode1_name: String,
    pub iso_comment: String,
    pub simple_uppercase_mapping: Option<Codepoint>,
    pub simple_lowercase_mapping: Option<Codepoint>,
    pub simple_titlecase_mapping: Option<Codepoint>,
}
pub uninterp spec fn raw_first(r: &RawUnicodeData) -> bool;
pub uninterp spec fn raw_last(r: &RawUnicodeData) -> bool;
impl RawUnicodeData {
    #[verifier::external_body]
    pub fn is_range_start(&self) -> (r: bool) ensures r == raw_first(self) { unimplemented!() }
    #[verifier::external_body]
    pub fn is_range_end(&self) -> (r: bool) ensures r == raw_last(self) { unimplemented!() }
}
// the directory argument is only handed on to ucd_parse::parse and to error messages: carried as an opaque token
pub struct OpaquePath {}
pub uninterp spec fn parsed_rows(dir: &OpaquePath) -> Seq<RawUnicodeData>;
pub uninterp spec fn raw_parse_ok(dir: &OpaquePath) -> bool;
#[verifier::external_body]
pub fn parse(dir: &OpaquePath) -> (r: Result<Vec<RawUnicodeData>, Error>)
    ensures r matches Ok(v) ==> v@ == parsed_rows(dir), r is Ok <==> raw_parse_ok(dir)
{ unimplemented!() }


// rows of the property files (ucd-parse): code points and a value name
#[derive(Clone, Debug, Default, PartialEq, Eq)]
pub struct Property { pub codepoints: Codepoints, pub property: String }
#[derive(Clone, Debug, Default, PartialEq, Eq)]
pub struct CoreProperty { pub codepoints: Codepoints, pub property: String }
#[derive(Clone, Debug, Default, PartialEq, Eq)]
pub struct Script { pub codepoints: Codepoints, pub script: String }
