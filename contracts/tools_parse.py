"""precis-tools/src/ucd_parsers.rs: UnicodeData::parse (folding of First/Last rows) -- C15"""
from vlib.extract import Fn, Impl, Verbatim, Text, Module, Loop, StructFields

ALL_FIELDS = ['codepoints', 'name', 'general_category', 'canonical_combining_class', 'bidi_class', 'decomposition',
              'numeric_type_decimal', 'numeric_type_digit', 'numeric_type_numeric', 'bidi_mirrored', 'unicode1_name',
              'iso_comment', 'simple_uppercase_mapping', 'simple_lowercase_mapping', 'simple_titlecase_mapping']

N = 'parsed_rows(ucd_dir).len() as int'

parse = Fn(
    'parse', ret='res',
    # A.opaque_path: `&Path` is only handed on to ucd_parse::parse and to error messages
    rewrites=[('A.opaque_path', r'ucd_dir: &Path', 'ucd_dir: &crate::ucd_parse::OpaquePath', 1),
              ('W.raw_type', r'Vec<ucd_parse::UnicodeData>', 'Vec<ucd_parse::RawUnicodeData>', 1),
              # err!(fmt, args..) = Err(Error::parse(format!(..))): the message is not modelled
              ('W.err', r'err!\((?:[^()]|\((?:[^()]|\([^()]*\))*\))*\)', 'crate::error::vx_err()', 4)],
    ensures=[
        ('C15.parse_ok', 'res matches Ok(xs) ==> (fold(parsed_rows(ucd_dir), %s) matches FoldState::Ok(fs, _) && rows_match(xs@, fs, parsed_rows(ucd_dir)))' % N),
        ('C15.parse_err', 'fold(parsed_rows(ucd_dir), %s) is Err ==> res is Err' % N),
        ('C15.parse_complete', '(raw_parse_ok(ucd_dir) && fold(parsed_rows(ucd_dir), %s) is Ok) ==> res is Ok' % N),
    ],
    inserts=[
        (r'xs\.push\(ucd\);', 1, 'after', '''proof {
    let f = Folded { lo: lo(codepoints), hi: hi(codepoints), src: k0 };
    let fs0 = fs;
    fs = fs.push(f);
    assert(xs@ =~= xs0.push(xs@.last()));
    let u = xs@.last();
    assert(lo(u.codepoints) == f.lo && hi(u.codepoints) == f.hi);
    assert(u.codepoints is Range <==> f.lo != f.hi || raw_last(&rows[f.src]));
    assert(u.general_category@ == rows[f.src].general_category@);
    assert(u.canonical_combining_class == rows[f.src].canonical_combining_class);
    assert(u.bidi_class@ == rows[f.src].bidi_class@);
    assert(u.decomposition == rows[f.src].decomposition);
    assert(row_matches(xs@.last(), f, rows));
    assert forall|i: int| 0 <= i < xs@.len() implies row_matches(#[trigger] xs@[i], fs[i], rows) by {
        if i < xs0.len() { assert(xs@[i] == xs0[i]); assert(fs[i] == fs0[i]); }
    }
}'''),
        (r'let mut range: Option<ucd_parse::CodepointRange> = None;', 1, 'after',
         'let ghost rows = raws@;\nlet ghost mut k: int = 0;\nlet ghost mut fs: Seq<Folded> = Seq::empty();\nproof { assert(rows == parsed_rows(ucd_dir)); }'),
    ],
    loops={1: Loop(
        invariants=[
            ('C15.parse_iter', 'IteratorSpec::decrease(&vx_it) is Some'),
            ('C15.parse_k', '0 <= k <= rows.len() && rows == raws@ && rows == parsed_rows(ucd_dir)'),
            ('C15.parse_rem', 'IteratorSpec::remaining(&vx_it).len() == rows.len() - k && forall|i: int| 0 <= i < rows.len() - k ==> *#[trigger] IteratorSpec::remaining(&vx_it)[i] == rows[k + i]'),
            ('C15.parse_fold', 'fold(rows, k) == FoldState::Ok(fs, match range { Some(r) => Some(r.start.v() as int), None => None::<int> })'),
            ('C15.parse_rows', 'rows_match(xs@, fs, rows)'),
        ],
        decreases='IteratorSpec::decrease(&vx_it).unwrap()',
        head='''let ghost xs0 = xs@;
proof {
    assert(IteratorSpec::remaining(&vx_it).len() == rows.len() - k - 1);
    assert(*udata == rows[k]);
    assert(fold(rows, k + 1) == fold_step(fold(rows, k), rows, k));
    lemma_fold_err(rows, k + 1, rows.len() as int);
}
let ghost k0 = k;
proof { k = k + 1; }''',
    )},
)


def module(repo):
    return Module('ucd_parsers', 'precis-tools/src/ucd_parsers.rs', [
        StructFields(r'pub\s+struct\s+HangulSyllableType\b', keep=['prop']),
        StructFields(r'pub\s+struct\s+DerivedJoiningType\b', keep=['prop']),
        StructFields(r'pub\s+struct\s+UnicodeData\b', keep=ALL_FIELDS),
        Impl(r'impl\s+UnicodeData\b', fns=[parse]),
    ], header='use super::*;\nuse crate::spec::*;\nuse crate::ucd_parse;\nuse crate::ucd_parse::{raw_first, raw_last, parsed_rows, raw_parse_ok, RawUnicodeData};\nuse crate::error::Error;\nuse vstd::std_specs::iter::*;\n')


def table_flavours():
    """the five other `impl UcdLineParser<X> for UcdTableGen` blocks, emitted as renamed inherent methods"""
    out = []
    for typ, path, key, cps in [('HangulSyllableType', 'HangulSyllableType', 'line.prop.property@', 'line.prop.codepoints'),
                                ('Property', 'Property', 'line.property@', 'line.codepoints'),
                                ('CoreProperty', 'CoreProperty', 'line.property@', 'line.codepoints'),
                                ('Script', 'Script', 'line.script@', 'line.codepoints'),
                                ('DerivedJoiningType', 'DerivedJoiningType', 'line.prop.property@', 'line.prop.codepoints')]:
        out.append(Impl(r'impl\s+UcdLineParser<%s>\s+for\s+UcdTableGen\b' % path, header='impl UcdTableGen', fns=[
            Fn('process_entry', rename='process_entry_%s' % typ.lower(), ret='res',
               requires=[('REQ.row_wf', 'lo(%s) <= hi(%s)' % (cps, cps))],
               ensures=[('C15.table_row_%s' % typ.lower(), 'res is Ok ==> forall|x: u32| final(self).set().contains(x) <==> (old(self).set().contains(x) || (old(self).key() == %s && lo(%s) <= x <= hi(%s)))' % (key, cps, cps)),
                        ('C15.table_err_%s' % typ.lower(), 'res is Err ==> old(self).key() == %s' % key),
                        ('C15.table_frame_%s' % typ.lower(), 'final(self).key() == old(self).key()')],
               head='proof { crate::ucd_parse::string_facts(); }')]))
    return out
