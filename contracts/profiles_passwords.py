"""precis-profiles/src/passwords.rs"""
from vlib.extract import Fn, Impl, Verbatim, Text, Module, Loop
from .lib_common import BROADCAST, FACTS
from .nicknames import fast

HEADER = '''use super::*;
use crate::vx::*;
use crate::spec::*;
use crate::precis_profiles::common;
use crate::precis_core::profile::{PrecisFastInvocation, Profile, Rules};
use crate::precis_core::Error;
use crate::precis_core::stringclasses::{FreeformClass, StringClass, allows_spec};
''' + BROADCAST

S0 = "IntoSpec::<Cow<str>>::into_spec(s)@"
INTO_S = ('REQ.into', "<S as IntoSpec<Cow<'a, str>>>::obeys_into_spec()")
INTO_T = ('REQ.into', "<T as IntoSpec<Cow<'a, str>>>::obeys_into_spec()")

# the closure handed to allows_spec by the trait contract vs the named per-class function
FF_EXT = 'proof { assert((|c: char| self.0.value(c)) =~= ff_vf()); }'


def module(repo):
    amr = Fn(
        'additional_mapping_rule', ret='r', head=FACTS,
        ensures=[('C05+C12.map_sp', 'res_view(r) == Ok::<Seq<char>, Error>(map_sp(%s))' % S0)],
        inserts=[
            (r'match s\.find\(', 1, 'before',
             '''proof {
    if forall|i: int| 0 <= i < s@.len() ==> !pat_matches(common::is_non_ascii_space, #[trigger] s@[i]) {
        assert forall|i: int| 0 <= i < s@.len() implies !nas(#[trigger] s@[i]) by {
            axiom_pat_fn(common::is_non_ascii_space, s@[i]);
        }
        assert(map_sp(s@) =~= s@);
    }
}'''),
            (r'let mut res = String::from', 1, 'before',
             '''let ghost k: int = choose|k: int| 0 <= k < s@.len() && pos as int == boff(s@, k) && pat_matches(common::is_non_ascii_space, s@[k])
    && forall|i: int| 0 <= i < k ==> !pat_matches(common::is_non_ascii_space, #[trigger] s@[i]);
proof {
    lemma_boff(s@, k);
    assert forall|i: int| 0 <= i < k implies !nas(#[trigger] s@[i]) by { axiom_pat_fn(common::is_non_ascii_space, s@[i]); }
    assert(map_sp(s@.take(k)) =~= s@.take(k));
}'''),
        ],
        loops={1: Loop(ghost='it', invariants=[
            ('C05.k', '0 <= k <= s@.len()'),
            ('C05.seq', 'it.seq() == s@.skip(k)'),
            ('C05.res', 'res@ == map_sp(s@.take(k + it.index@))'),
        ], head='''proof {
    let i = it.index@;
    assert(s@.take(k + i + 1) =~= s@.take(k + i).push(s@[k + i]));
    assert(map_sp(s@.take(k + i + 1)) =~= map_sp(s@.take(k + i)).push(if nas(c) { ' ' } else { c }));
}''', post='proof { assert(s@.take(s@.len() as int) =~= s@); }')},
    )
    return Module('passwords', 'precis-profiles/src/passwords.rs', [
        Verbatim(r'pub\s+struct\s+OpaqueString\b'),
        Impl(r'impl\s+OpaqueString\b', [Fn('new', ret='r')]),
        Impl(r'impl\s+Profile\s+for\s+OpaqueString\b', [
            Fn('prepare', ret='r', head=FACTS,
               ensures=[('C05.prepare', 'res_view(r) == freeform_prepare(%s)' % S0),
                        ('C05+C16.prepare_unchanged', 'r matches Ok(x) ==> x@ == %s' % S0)],
               inserts=[(r'self\.0\.allows\(&s\)\?;', 1, 'before', FF_EXT)]),
            Fn('enforce', ret='r', head=FACTS,
               ensures=[('C05.enforce', 'res_view(r) == opaque_enforce(%s)' % S0)]),
            Fn('compare', ret='r', head=FACTS,
               ensures=[('C07.opaque_compare', 'r == cmp_spec(opaque_enforce(as_ref_view(&s1)), opaque_enforce(as_ref_view(&s2)))')]),
        ]),
        Impl(r'impl\s+Rules\s+for\s+OpaqueString\b', [
            amr,
            Fn('normalization_rule', ret='r', head=FACTS,
               ensures=[('C05.nfc', 'res_view(r) == Ok::<Seq<char>, Error>(spec_nfc(%s))' % S0)]),
        ]),
    ] + fast('OpaqueString', 'get_opaque_string_profile', 'freeform_prepare(%s)' % S0, 'opaque_enforce(%s)' % S0,
             'cmp_spec(opaque_enforce(as_ref_view(&s1)), opaque_enforce(as_ref_view(&s2)))'), header=HEADER)
