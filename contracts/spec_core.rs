// SPEC (ghost only) for precis-core: per-code-point table predicates (uninterpreted here; each is tied to
// the real generated table and to the raw UCD 6.3.0 files by a Kani harness, see ledger), the RFC 8264
// section 8 decision list, the RFC 5892 Appendix A context rules and the acceptance rule of a string class.

use crate::precis_core::error::{Error, UnexpectedError, CodepointInfo};
use crate::precis_core::context::ContextRuleError;

// ---- table predicates (ledger: tbl_*)
pub uninterp spec fn t_exception(cp: u32) -> Option<DerivedPropertyValue>;
pub uninterp spec fn t_backward_compatible(cp: u32) -> Option<DerivedPropertyValue>;
pub uninterp spec fn t_unassigned(cp: u32) -> bool;
pub uninterp spec fn t_ascii7(cp: u32) -> bool;
pub uninterp spec fn t_join_control(cp: u32) -> bool;
pub uninterp spec fn t_old_hangul_jamo(cp: u32) -> bool;
pub uninterp spec fn t_precis_ignorable(cp: u32) -> bool;
pub uninterp spec fn t_control(cp: u32) -> bool;
// HasCompat (RFC 8264 section 9.17): the code point is a scalar value that NFKC changes
pub open spec fn t_has_compat(cp: u32) -> bool {
    (cp <= 0xD7FF || (0xE000 <= cp <= 0x10FFFF)) && spec_nfkc(seq![cp as char]) != seq![cp as char]
}
pub uninterp spec fn t_letter_digit(cp: u32) -> bool;
pub uninterp spec fn t_other_letter_digit(cp: u32) -> bool;
pub uninterp spec fn t_space(cp: u32) -> bool;
pub uninterp spec fn t_symbol(cp: u32) -> bool;
pub uninterp spec fn t_punctuation(cp: u32) -> bool;

pub uninterp spec fn t_virama(cp: u32) -> bool;
pub uninterp spec fn t_greek(cp: u32) -> bool;
pub uninterp spec fn t_hebrew(cp: u32) -> bool;
pub uninterp spec fn t_hiragana(cp: u32) -> bool;
pub uninterp spec fn t_katakana(cp: u32) -> bool;
pub uninterp spec fn t_han(cp: u32) -> bool;
pub uninterp spec fn t_dual_joining(cp: u32) -> bool;
pub uninterp spec fn t_left_joining(cp: u32) -> bool;
pub uninterp spec fn t_right_joining(cp: u32) -> bool;
pub uninterp spec fn t_transparent(cp: u32) -> bool;

// ---- RFC 8264 section 8: the decision list, in its fixed order.  `spec_class` selects the
// class-specific outcome: true = IdentifierClass (ID_DIS), false = FreeformClass (FREE_PVAL).
pub open spec fn class_specific(id_class: bool) -> DerivedPropertyValue {
    if id_class { DerivedPropertyValue::SpecClassDis } else { DerivedPropertyValue::SpecClassPval }
}

pub open spec fn rfc8264_derived(cp: u32, id_class: bool) -> DerivedPropertyValue {
    rfc8264_derived_with(cp, class_specific(id_class))
}

pub open spec fn rfc8264_derived_with(cp: u32, class_value: DerivedPropertyValue) -> DerivedPropertyValue {
    if t_exception(cp) is Some { t_exception(cp)->Some_0 }
    else if t_backward_compatible(cp) is Some { t_backward_compatible(cp)->Some_0 }
    else if t_unassigned(cp) { DerivedPropertyValue::Unassigned }
    else if t_ascii7(cp) { DerivedPropertyValue::PValid }
    else if t_join_control(cp) { DerivedPropertyValue::ContextJ }
    else if t_old_hangul_jamo(cp) { DerivedPropertyValue::Disallowed }
    else if t_precis_ignorable(cp) { DerivedPropertyValue::Disallowed }
    else if t_control(cp) { DerivedPropertyValue::Disallowed }
    else if t_has_compat(cp) { class_value }
    else if t_letter_digit(cp) { DerivedPropertyValue::PValid }
    else if t_other_letter_digit(cp) { class_value }
    else if t_space(cp) { class_value }
    else if t_symbol(cp) { class_value }
    else if t_punctuation(cp) { class_value }
    else { DerivedPropertyValue::Disallowed }
}

// the two classes agree except that IdentifierClass disallows exactly what FreeformClass class-validates
pub proof fn lemma_classes_agree(cp: u32)
    requires
        t_exception(cp) is Some ==> t_exception(cp)->Some_0 != DerivedPropertyValue::SpecClassDis && t_exception(cp)->Some_0 != DerivedPropertyValue::SpecClassPval,
        t_backward_compatible(cp) is Some ==> t_backward_compatible(cp)->Some_0 != DerivedPropertyValue::SpecClassDis && t_backward_compatible(cp)->Some_0 != DerivedPropertyValue::SpecClassPval,
    ensures
        rfc8264_derived(cp, true) == DerivedPropertyValue::SpecClassDis <==> rfc8264_derived(cp, false) == DerivedPropertyValue::SpecClassPval,
        rfc8264_derived(cp, true) != DerivedPropertyValue::SpecClassDis ==> rfc8264_derived(cp, true) == rfc8264_derived(cp, false),
        rfc8264_derived(cp, true) != DerivedPropertyValue::SpecClassPval,
        rfc8264_derived(cp, false) != DerivedPropertyValue::SpecClassDis,
{
}

// ---- RFC 5892 Appendix A.  Positions are code-point positions in the label.
pub enum RuleId { MiddleDot, Zwnj, Zwj, Keraia, HebrewPunct, KatakanaMiddleDot, ArabicIndic, ExtArabicIndic }

pub open spec fn cpo(s: Seq<char>, i: int) -> u32 { s[i] as u32 }

// own code points of each rule (the "Code point:" line of each appendix entry)
pub open spec fn rule_own(id: RuleId, cp: u32) -> bool {
    match id {
        RuleId::MiddleDot => cp == 0x00b7,
        RuleId::Zwnj => cp == 0x200c,
        RuleId::Zwj => cp == 0x200d,
        RuleId::Keraia => cp == 0x0375,
        RuleId::HebrewPunct => cp == 0x05f3 || cp == 0x05f4,
        RuleId::KatakanaMiddleDot => cp == 0x30fb,
        RuleId::ArabicIndic => 0x0660 <= cp <= 0x0669,
        RuleId::ExtArabicIndic => 0x06f0 <= cp <= 0x06f9,
    }
}

// RFC 5892 A.1 .. A.9 registry: which rule is registered for a code point
pub open spec fn registry(cp: u32) -> Option<RuleId> {
    if cp == 0x00b7 { Some(RuleId::MiddleDot) }
    else if cp == 0x200c { Some(RuleId::Zwnj) }
    else if cp == 0x200d { Some(RuleId::Zwj) }
    else if cp == 0x0375 { Some(RuleId::Keraia) }
    else if cp == 0x05f3 || cp == 0x05f4 { Some(RuleId::HebrewPunct) }
    else if cp == 0x30fb { Some(RuleId::KatakanaMiddleDot) }
    else if 0x0660 <= cp <= 0x0669 { Some(RuleId::ArabicIndic) }
    else if 0x06f0 <= cp <= 0x06f9 { Some(RuleId::ExtArabicIndic) }
    else { None }
}

// transparent run scanning: position of the first non-transparent character at or before / at or after i
pub open spec fn scan_back(s: Seq<char>, i: int) -> Option<int>
    decreases i + 1
{
    if i < 0 || i >= s.len() { None } else if t_transparent(cpo(s, i)) { scan_back(s, i - 1) } else { Some(i) }
}
pub open spec fn scan_fwd(s: Seq<char>, i: int) -> Option<int>
    decreases s.len() - i
{
    if i < 0 || i >= s.len() { None } else if t_transparent(cpo(s, i)) { scan_fwd(s, i + 1) } else { Some(i) }
}

pub proof fn lemma_scan_back(s: Seq<char>, i: int)
    requires -1 <= i < s.len()
    ensures
        match scan_back(s, i) {
            Some(b) => 0 <= b <= i && !t_transparent(cpo(s, b)) && forall|j: int| b < j <= i ==> t_transparent(#[trigger] cpo(s, j)),
            None => forall|j: int| 0 <= j <= i ==> t_transparent(#[trigger] cpo(s, j)),
        }
    decreases i + 1
{
    if i >= 0 && t_transparent(cpo(s, i)) { lemma_scan_back(s, i - 1); }
}
pub proof fn lemma_scan_fwd(s: Seq<char>, i: int)
    requires 0 <= i <= s.len()
    ensures
        match scan_fwd(s, i) {
            Some(f) => i <= f < s.len() && !t_transparent(cpo(s, f)) && forall|j: int| i <= j < f ==> t_transparent(#[trigger] cpo(s, j)),
            None => forall|j: int| i <= j < s.len() ==> t_transparent(#[trigger] cpo(s, j)),
        }
    decreases s.len() - i
{
    if i < s.len() && t_transparent(cpo(s, i)) { lemma_scan_fwd(s, i + 1); }
}

pub open spec fn in_label(s: Seq<char>, i: int) -> bool { 0 <= i < s.len() }

// body of each rule, for a position o inside the label holding one of the rule's own code points
pub open spec fn rule_body(id: RuleId, s: Seq<char>, o: int) -> Result<bool, ContextRuleError> {
    match id {
        // A.1  If Canonical_Combining_Class(Before(cp)) .eq. Virama Then True;
        //      If RegExpMatch((Joining_Type:{L,D})(Joining_Type:T)*‌(Joining_Type:T)*(Joining_Type:{R,D})) Then True;
        RuleId::Zwnj =>
            if !in_label(s, o - 1) { Err(ContextRuleError::Undefined) }
            else if t_virama(cpo(s, o - 1)) { Ok(true) }
            else { match scan_back(s, o - 1) {
                None => Err(ContextRuleError::Undefined),
                Some(b) => if !(t_left_joining(cpo(s, b)) || t_dual_joining(cpo(s, b))) { Ok(false) }
                    else { match scan_fwd(s, o + 1) {
                        None => Err(ContextRuleError::Undefined),
                        Some(f) => Ok(t_right_joining(cpo(s, f)) || t_dual_joining(cpo(s, f))),
                    } },
            } },
        // A.2  If Canonical_Combining_Class(Before(cp)) .eq. Virama Then True;
        RuleId::Zwj =>
            if !in_label(s, o - 1) { Err(ContextRuleError::Undefined) } else { Ok(t_virama(cpo(s, o - 1))) },
        // A.3  If Before(cp) .eq. U+006C And After(cp) .eq. U+006C Then True;
        RuleId::MiddleDot =>
            if !in_label(s, o - 1) || !in_label(s, o + 1) { Err(ContextRuleError::Undefined) }
            else { Ok(cpo(s, o - 1) == 0x006c && cpo(s, o + 1) == 0x006c) },
        // A.4  If Script(After(cp)) .eq. Greek Then True;
        RuleId::Keraia =>
            if !in_label(s, o + 1) { Err(ContextRuleError::Undefined) } else { Ok(t_greek(cpo(s, o + 1))) },
        // A.5, A.6  If Script(Before(cp)) .eq. Hebrew Then True;
        RuleId::HebrewPunct =>
            if !in_label(s, o - 1) { Err(ContextRuleError::Undefined) } else { Ok(t_hebrew(cpo(s, o - 1))) },
        // A.7  For All Characters: If Script(cp) .in. {Hiragana, Katakana, Han} Then True;
        RuleId::KatakanaMiddleDot =>
            Ok(exists|j: int| 0 <= j < s.len() && #[trigger] kana_or_han(cpo(s, j))),
        // A.8  True; For All Characters: If cp .in. 06F0..06F9 Then False;
        RuleId::ArabicIndic =>
            Ok(forall|j: int| 0 <= j < s.len() ==> !#[trigger] ext_arabic_indic(cpo(s, j))),
        // A.9  True; For All Characters: If cp .in. 0660..0669 Then False;
        RuleId::ExtArabicIndic =>
            Ok(forall|j: int| 0 <= j < s.len() ==> !#[trigger] arabic_indic(cpo(s, j))),
    }
}
pub open spec fn kana_or_han(cp: u32) -> bool { t_hiragana(cp) || t_katakana(cp) || t_han(cp) }
pub open spec fn arabic_indic(cp: u32) -> bool { 0x0660 <= cp <= 0x0669 }
pub open spec fn ext_arabic_indic(cp: u32) -> bool { 0x06f0 <= cp <= 0x06f9 }

// a rule evaluated at any usize position of any label
pub open spec fn rule_spec(id: RuleId, s: Seq<char>, o: int) -> Result<bool, ContextRuleError> {
    if !in_label(s, o) { Err(ContextRuleError::Undefined) }
    else if !rule_own(id, cpo(s, o)) { Err(ContextRuleError::NotApplicable) }
    else { rule_body(id, s, o) }
}

// "true exactly when the RFC condition holds" for A.1, in the regular-expression reading
pub proof fn lemma_zwnj_regexp(s: Seq<char>, o: int)
    requires in_label(s, o), cpo(s, o) == 0x200c
    ensures
        rule_spec(RuleId::Zwnj, s, o) == Ok::<bool, ContextRuleError>(true) <==>
            (in_label(s, o - 1) && (t_virama(cpo(s, o - 1)) || (exists|b: int, f: int| 0 <= b < o && o < f < s.len()
                && (t_left_joining(cpo(s, b)) || t_dual_joining(cpo(s, b)))
                && (forall|j: int| b < j < o ==> t_transparent(#[trigger] cpo(s, j)))
                && (forall|j: int| o < j < f ==> t_transparent(#[trigger] cpo(s, j)))
                && (t_right_joining(cpo(s, f)) || t_dual_joining(cpo(s, f)))
                && !t_transparent(cpo(s, b)) && !t_transparent(cpo(s, f)))))
{
    if in_label(s, o - 1) && !t_virama(cpo(s, o - 1)) {
        lemma_scan_back(s, o - 1);
        lemma_scan_fwd(s, o + 1);
        let lhs = rule_spec(RuleId::Zwnj, s, o) == Ok::<bool, ContextRuleError>(true);
        let rhs = exists|b: int, f: int| 0 <= b < o && o < f < s.len()
                && (t_left_joining(cpo(s, b)) || t_dual_joining(cpo(s, b)))
                && (forall|j: int| b < j < o ==> t_transparent(#[trigger] cpo(s, j)))
                && (forall|j: int| o < j < f ==> t_transparent(#[trigger] cpo(s, j)))
                && (t_right_joining(cpo(s, f)) || t_dual_joining(cpo(s, f)))
                && !t_transparent(cpo(s, b)) && !t_transparent(cpo(s, f));
        if lhs {
            let b = scan_back(s, o - 1)->Some_0;
            let f = scan_fwd(s, o + 1)->Some_0;
            assert(0 <= b < o && o < f < s.len()
                && (t_left_joining(cpo(s, b)) || t_dual_joining(cpo(s, b)))
                && (forall|j: int| b < j < o ==> t_transparent(#[trigger] cpo(s, j)))
                && (forall|j: int| o < j < f ==> t_transparent(#[trigger] cpo(s, j)))
                && (t_right_joining(cpo(s, f)) || t_dual_joining(cpo(s, f)))
                && !t_transparent(cpo(s, b)) && !t_transparent(cpo(s, f)));
        }
        if rhs {
            let (b, f) = choose|b: int, f: int| 0 <= b < o && o < f < s.len()
                && (t_left_joining(cpo(s, b)) || t_dual_joining(cpo(s, b)))
                && (forall|j: int| b < j < o ==> t_transparent(#[trigger] cpo(s, j)))
                && (forall|j: int| o < j < f ==> t_transparent(#[trigger] cpo(s, j)))
                && (t_right_joining(cpo(s, f)) || t_dual_joining(cpo(s, f)))
                && !t_transparent(cpo(s, b)) && !t_transparent(cpo(s, f));
            // the scans stop exactly at b and f
            match scan_back(s, o - 1) {
                Some(b2) => {
                    if b2 < b { assert(t_transparent(cpo(s, b))); }
                    if b2 > b { assert(t_transparent(cpo(s, b2))); }
                },
                None => { assert(t_transparent(cpo(s, b))); },
            }
            match scan_fwd(s, o + 1) {
                Some(f2) => {
                    if f2 > f { assert(t_transparent(cpo(s, f))); }
                    if f2 < f { assert(t_transparent(cpo(s, f2))); }
                },
                None => { assert(t_transparent(cpo(s, f))); },
            }
        }
    }
}

// ---- string class acceptance (RFC 8264 section 4 with RFC 5892 contextual rules)
pub open spec fn val_ok(v: DerivedPropertyValue) -> bool {
    v == DerivedPropertyValue::PValid || v == DerivedPropertyValue::SpecClassPval
}
pub open spec fn val_ctx(v: DerivedPropertyValue) -> bool {
    v == DerivedPropertyValue::ContextJ || v == DerivedPropertyValue::ContextO
}
pub open spec fn val_bad(v: DerivedPropertyValue) -> bool {
    v == DerivedPropertyValue::SpecClassDis || v == DerivedPropertyValue::Disallowed || v == DerivedPropertyValue::Unassigned
}

// outcome at position i of label l for a character whose value in the class is v
pub open spec fn pos_result(v: DerivedPropertyValue, l: Seq<char>, i: int) -> Result<(), Error> {
    let cp = l[i] as u32;
    let info = CodepointInfo { cp: cp, position: i as usize, property: v };
    if val_ok(v) { Ok(()) }
    else if val_ctx(v) {
        match registry(cp) {
            None => Err(Error::Unexpected(UnexpectedError::MissingContextRule(info))),
            Some(id) => match rule_spec(id, l, i) {
                Ok(true) => Ok(()),
                Ok(false) => Err(Error::BadCodepoint(info)),
                Err(ContextRuleError::NotApplicable) => Err(Error::Unexpected(UnexpectedError::ContextRuleNotApplicable(info))),
                Err(ContextRuleError::Undefined) => Err(Error::Unexpected(UnexpectedError::Undefined)),
            },
        }
    } else { Err(Error::BadCodepoint(info)) }
}
