// SPEC (ghost only): RFC 8266 section 2.3 rule 2 (Nickname additional mapping) and RFC 8265 section 4.2.2
// rule 2 (OpaqueString additional mapping), written over Seq<char>.  Encoded lengths never appear.
//
// zs(c)  : c has General_Category Zs in the profile crate's Unicode version (discharged on the real
//          table by Kani: ledger entry `zs_table`)
pub uninterp spec fn zs(c: char) -> bool;

// ledger `zs_space`: U+0020 is a space separator (Kani, on the real is_space_separator)
pub broadcast axiom fn axiom_zs_space()
    ensures #[trigger] zs(' ');

// ---- Nickname: map every Zs to U+0020, strip leading/trailing, collapse interior runs.
// Left-to-right reading of the rule: a space is produced only between two non-space characters.
// cstate(p) = (output so far, a space is pending, a non-space character has been seen)
pub open spec fn cstate(p: Seq<char>) -> (Seq<char>, bool, bool)
    decreases p.len()
{
    if p.len() == 0 {
        (Seq::<char>::empty(), false, false)
    } else {
        let (o, pe, st) = cstate(p.drop_last());
        let c = p.last();
        if zs(c) {
            (o, st, st)
        } else {
            ((if pe { o.push(' ') } else { o }).push(c), false, true)
        }
    }
}

pub open spec fn collapse(s: Seq<char>) -> Seq<char> { cstate(s).0 }

// the output with a pending space written out (what an eager implementation holds in its buffer)
pub open spec fn eager(p: Seq<char>) -> Seq<char> {
    if cstate(p).1 { cstate(p).0.push(' ') } else { cstate(p).0 }
}

pub proof fn lemma_cstate_push(p: Seq<char>, c: char)
    ensures
        cstate(p.push(c)) == (if zs(c) { (cstate(p).0, cstate(p).2, cstate(p).2) } else {
            ((if cstate(p).1 { cstate(p).0.push(' ') } else { cstate(p).0 }).push(c), false, true) }),
{
    assert(p.push(c).drop_last() =~= p);
    assert(p.push(c).last() == c);
}

// structural facts about cstate: output never starts/ends with a space, no two adjacent spaces,
// every space in it is U+0020, pending implies started, started iff some non-space seen.
pub open spec fn no_zs_except_space(o: Seq<char>) -> bool {
    forall|i: int| 0 <= i < o.len() ==> (zs(#[trigger] o[i]) ==> o[i] == ' ')
}
pub open spec fn well_spaced(o: Seq<char>) -> bool {
    &&& (o.len() > 0 ==> !zs(o[0]) && !zs(o.last()))
    &&& forall|i: int| 0 <= i < o.len() - 1 ==> !(zs(#[trigger] o[i]) && zs(o[i + 1]))
    &&& no_zs_except_space(o)
}

pub proof fn lemma_cstate_shape(p: Seq<char>)
    ensures
        well_spaced(cstate(p).0),
        cstate(p).1 ==> cstate(p).2,
        cstate(p).2 <==> cstate(p).0.len() > 0,
        cstate(p).2 <==> exists|i: int| 0 <= i < p.len() && !zs(p[i]),
    decreases p.len()
{
    broadcast use axiom_zs_space;
    if p.len() == 0 {
    } else {
        let q = p.drop_last();
        let c = p.last();
        lemma_cstate_shape(q);
        let (o, pe, st) = cstate(q);
        if zs(c) {
            if st {
                let i = choose|i: int| 0 <= i < q.len() && !zs(q[i]);
                assert(p[i] == q[i]);
            } else {
                assert forall|i: int| 0 <= i < p.len() implies zs(p[i]) by {
                    if i < q.len() { assert(p[i] == q[i]); }
                }
            }
        } else {
            assert(!zs(p[p.len() - 1]));
            let o1 = if pe { o.push(' ') } else { o };
            let o2 = o1.push(c);
            assert(o2.last() == c);
            assert(o2[0] == (if o.len() > 0 { o[0] } else { c }));
            assert forall|i: int| 0 <= i < o2.len() - 1 implies !(zs(#[trigger] o2[i]) && zs(o2[i + 1])) by {
                if i < o.len() - 1 { assert(o2[i] == o[i] && o2[i + 1] == o[i + 1]); }
                else if i == o.len() - 1 { assert(o2[i] == o.last()); }
                else { assert(o2[i + 1] == c); }
            }
            assert forall|i: int| 0 <= i < o2.len() implies (zs(#[trigger] o2[i]) ==> o2[i] == ' ') by {
                if i < o.len() { assert(o2[i] == o[i]); }
            }
        }
    }
}

// a string that equals its own eager form: what the prefix copied by trim_spaces looks like
pub proof fn lemma_eager_fixed(p: Seq<char>)
    requires eager(p) == p
    ensures
        cstate(p).2 <==> p.len() > 0,
        cstate(p).1 <==> (p.len() > 0 && p.last() == ' '),
{
    broadcast use axiom_zs_space;
    lemma_cstate_shape(p);
    let (o, pe, st) = cstate(p);
    if pe {
        assert(o.push(' ').last() == ' ');
    } else {
        if o.len() > 0 { assert(!zs(o.last())); }
    }
}

// ---- collapse keeps all non-space characters, in order
pub open spec fn non_spaces(s: Seq<char>) -> Seq<char> { s.filter(|c: char| !zs(c)) }

pub proof fn lemma_collapse_keeps_non_spaces(p: Seq<char>)
    ensures non_spaces(collapse(p)) == non_spaces(p)
    decreases p.len()
{
    broadcast use axiom_zs_space;
    reveal(Seq::filter);
    let f = |c: char| !zs(c);
    if p.len() == 0 {
    } else {
        let q = p.drop_last();
        let c = p.last();
        lemma_collapse_keeps_non_spaces(q);
        let (o, pe, st) = cstate(q);
        assert(p =~= q.push(c));
        if zs(c) {
            assert(p.filter(f) =~= q.filter(f));
        } else {
            let o1 = if pe { o.push(' ') } else { o };
            if pe {
                assert(o1.drop_last() =~= o);
                assert(o1.filter(f) =~= o.filter(f));
            }
            let o2 = o1.push(c);
            assert(o2.drop_last() =~= o1);
            assert(o2.filter(f) =~= o1.filter(f).push(c));
            assert(p.filter(f) =~= q.filter(f).push(c));
        }
    }
}

// ---- collapse is idempotent: on a well-spaced string it is the identity
pub proof fn lemma_cstate_well_spaced(o: Seq<char>, n: int)
    requires well_spaced(o), 0 <= n <= o.len()
    ensures
        eager(o.take(n)) == o.take(n),
        n > 0 ==> (cstate(o.take(n)).2 && (cstate(o.take(n)).1 <==> zs(o[n - 1]))),
    decreases n
{
    broadcast use axiom_zs_space;
    if n == 0 {
        assert(o.take(0) =~= Seq::<char>::empty());
    } else {
        lemma_cstate_well_spaced(o, n - 1);
        let q = o.take(n - 1);
        let c = o[n - 1];
        assert(o.take(n) =~= q.push(c));
        lemma_cstate_push(q, c);
        lemma_cstate_shape(q);
        if zs(c) {
            assert(n - 1 > 0);
            assert(c == ' ');
            assert(!zs(o[n - 2]));
        } else {
        }
    }
}

pub proof fn lemma_collapse_idempotent(s: Seq<char>)
    ensures collapse(collapse(s)) == collapse(s)
{
    let o = collapse(s);
    lemma_cstate_shape(s);
    lemma_cstate_well_spaced(o, o.len() as int);
    assert(o.take(o.len() as int) =~= o);
    if o.len() > 0 { assert(!zs(o[o.len() - 1])); }
}

// ---- OpaqueString: every non-ASCII Zs becomes U+0020, nothing else changes
pub open spec fn nas(c: char) -> bool { c != ' ' && zs(c) }
pub open spec fn map_sp(s: Seq<char>) -> Seq<char> {
    s.map_values(|c: char| if nas(c) { ' ' } else { c })
}
pub proof fn lemma_map_sp_idempotent(s: Seq<char>)
    ensures map_sp(map_sp(s)) == map_sp(s)
{
    assert(map_sp(map_sp(s)) =~= map_sp(s));
}
