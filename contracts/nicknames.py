"""precis-profiles/src/nicknames.rs"""
from vlib.extract import Fn, Impl, Verbatim, Text, Module, Loop
from .lib_common import BROADCAST, FACTS

HEADER = '''use super::*;
use crate::vx::*;
use crate::spec::*;
use crate::precis_profiles::common;
use crate::precis_core::Error;
use crate::precis_core::profile::{stabilize, PrecisFastInvocation, Profile, Rules};
use crate::precis_core::stringclasses::{FreeformClass, StringClass, allows_spec};
''' + BROADCAST

INTO_S = ('REQ.into', "<S as IntoSpec<Cow<'a, str>>>::obeys_into_spec()")
INTO_T = ('REQ.into', "<T as IntoSpec<Cow<'a, str>>>::obeys_into_spec()")

# ---------------------------------------------------------------------------------------------
find_disallowed_space = Fn(
    'find_disallowed_space', ret='r',
    ensures=[
        ('C12.fds_none', 'r is None ==> collapse(label@) == label@'),
        ('C01.fds_boundary', 'r matches Some(p) ==> exists|k: int| 0 <= k < label@.len() && p as int == #[trigger] boff(label@, k)'
                             ' && eager(label@.take(k)) == label@.take(k)'),
    ],
    head='let ghost mut j: int = 0;\nproof { assert(label@.take(0) =~= Seq::<char>::empty()); }',
    loops={1: Loop(
        invariants=[
            ('C01.fds_iter', 'IteratorSpec::decrease(&vx_it) is Some'),
            ('C01.fds_j', '0 <= j <= label@.len()'),
            ('C01.fds_rem', 'IteratorSpec::remaining(&vx_it) == char_indices_seq(label@).skip(j)'),
            ('C01.fds_offset', 'j > 0 ==> offset as int == boff(label@, j - 1)'),
            ('C12.fds_prefix', 'eager(label@.take(j)) == label@.take(j)'),
            ('C12.fds_prefix_prev', 'j > 0 ==> eager(label@.take(j - 1)) == label@.take(j - 1)'),
            ('C12.fds_begin', 'begin == !cstate(label@.take(j)).2'),
            ('C12.fds_prev_space', 'prev_space == cstate(label@.take(j)).1'),
            ('C12.fds_last', 'last_c == (if j > 0 { Some(label@[j - 1]) } else { None::<char> })'),
        ],
        ensures=[('C12.fds_done', 'IteratorSpec::remaining(&vx_it).len() == 0')],
        decreases='IteratorSpec::decrease(&vx_it).unwrap()',
        head='''proof {
    assert(char_indices_seq(label@).skip(j).len() > 0);
    assert(j < label@.len());
    lemma_boff(label@, j);
    assert(char_indices_seq(label@).skip(j)[0] == char_indices_seq(label@)[j]);
    assert(label.spec_bytes().len() <= isize::MAX);
    assert(index as int == boff(label@, j));
    assert(c == label@[j]);
    assert(IteratorSpec::remaining(&vx_it) =~= char_indices_seq(label@).skip(j + 1));
    assert(label@.take(j + 1) =~= label@.take(j).push(c));
    lemma_cstate_push(label@.take(j), c);
    lemma_cstate_shape(label@.take(j));
    lemma_eager_fixed(label@.take(j));
    j = j + 1;
}''',
        post='''proof {
    assert(char_indices_seq(label@).skip(j).len() == 0);
    assert(j == label@.len());
    assert(label@.take(j) =~= label@);
    lemma_eager_fixed(label@);
    if j > 0 { lemma_boff(label@, j - 1); }
}''',
    )},
)

trim_spaces = Fn(
    'trim_spaces', ret='r',
    requires=[INTO_T],
    ensures=[
        ('C12.trim_ok', 'r is Ok'),
        ('C12.trim_collapse', 'r matches Ok(x) ==> x@ == collapse(IntoSpec::<Cow<str>>::into_spec(s)@)'),
    ],
    head=FACTS,
    inserts=[
        (r'let mut res = String::from', 1, 'before',
         '''let ghost k: int = choose|k: int| 0 <= k < s@.len() && pos as int == boff(s@, k) && eager(s@.take(k)) == s@.take(k);
proof { lemma_boff(s@, k); lemma_eager_fixed(s@.take(k)); }'''),
    ],
    loops={1: Loop(
        invariants=[
            ('C01.trim_iter', 'IteratorSpec::decrease(&vx_it) is Some'),
            ('C12.trim_i', '0 <= k && 0 <= i && k + i <= s@.len()'),
            ('C12.trim_rem', 'IteratorSpec::remaining(&vx_it) == s@.skip(k + i)'),
            ('C12.trim_res', 'res@ == eager(s@.take(k + i))'),
            ('C12.trim_begin', 'begin == !cstate(s@.take(k + i)).2'),
            ('C12.trim_prev_space', 'prev_space == cstate(s@.take(k + i)).1'),
        ],
        ensures=[('C12.trim_done', 'IteratorSpec::remaining(&vx_it).len() == 0')],
        decreases='IteratorSpec::decrease(&vx_it).unwrap()',
        pre='let ghost mut i: int = 0;',
        head='''proof {
    assert(s@.skip(k + i).len() > 0);
    assert(c == s@[k + i]);
    assert(IteratorSpec::remaining(&vx_it) =~= s@.skip(k + i + 1));
    assert(s@.take(k + i + 1) =~= s@.take(k + i).push(c));
    lemma_cstate_push(s@.take(k + i), c);
    lemma_cstate_shape(s@.take(k + i));
    i = i + 1;
}''',
        post='''proof {
    assert(s@.skip(k + i).len() == 0);
    assert(s@.take(k + i) =~= s@);
    lemma_cstate_shape(s@);
    if cstate(s@).1 { assert(cstate(s@).0.push(' ').drop_last() =~= cstate(s@).0); }
    else if cstate(s@).0.len() > 0 { assert(cstate(s@).0.drop_last().push(cstate(s@).0.last()) =~= cstate(s@).0); }
}''',
    )},
)


S0 = "IntoSpec::<Cow<str>>::into_spec(s)@"
FF_EXT = 'proof { assert((|c: char| self.0.value(c)) =~= ff_vf()); }'
RV = 'res_view(r)'

CLOSURE = r"|s: &str| -> (r: Result<Cow<str>, Error>) ensures res_view(r) == %s(s@) { \1 }"


OWN = {'Nickname': 'C06', 'OpaqueString': 'C05', 'UsernameCaseMapped': 'C04', 'UsernameCasePreserved': 'C04'}


def fast(name, getter, prep, enf, cmp_):
    """PrecisFastInvocation impl: same contracts as the instance methods; the lazily created static
    profile is reached through `getter`, extracted by signature only (lazy_static! is macro-generated)."""
    return [
        Fn(getter, ret='r', mode='sig'),
        Impl(r'impl\s+PrecisFastInvocation\s+for\s+%s\b' % name, lift='fast_%s_' % name, fns=[
            # the static form is the same operation of the same profile: the clause also counts for the property that
            # states what that profile's prepare/enforce (C04/C05/C06) and compare (C07) return
            Fn('prepare', ret='r', head=FACTS, requires=[INTO_S], ensures=[('C16+%s.fast_prepare' % OWN[name], 'res_view(r) == %s' % prep)]),
            Fn('enforce', ret='r', head=FACTS, requires=[INTO_S], ensures=[('C16+%s.fast_enforce' % OWN[name], 'res_view(r) == %s' % enf)]),
            Fn('compare', ret='r', head=FACTS, ensures=[('C16+C07.fast_compare', 'r == %s' % cmp_)]),
        ]),
    ]


def module(repo):
    return Module('nicknames', 'precis-profiles/src/nicknames.rs', [
        find_disallowed_space,
        trim_spaces,
        Verbatim(r'pub\s+struct\s+Nickname\b'),
        Impl(r'impl\s+Nickname\b', [
            Fn('new', ret='r'),
            Fn('apply_prepare_rules', ret='r', requires=[INTO_T], head=FACTS,
               ensures=[('C06.prepare_rules', 'res_view(r) == freeform_prepare(%s)' % S0),
                        ('C06+C16.prepare_unchanged', 'r matches Ok(x) ==> x@ == %s' % S0)],
               inserts=[(r'self\.0\.allows\(&s\)\?;', 1, 'before', FF_EXT)]),
            Fn('apply_enforce_rules', ret='r', requires=[INTO_T], head=FACTS,
               ensures=[('C06.enforce_rules', 'res_view(r) == nick_step(%s)' % S0)]),
            Fn('apply_compare_rules', ret='r', requires=[INTO_T], head=FACTS,
               ensures=[('C07.compare_rules', 'res_view(r) == nick_cmp_step(%s)' % S0)]),
        ]),
        Impl(r'impl\s+Profile\s+for\s+Nickname\b', [
            Fn('prepare', ret='r', head=FACTS,
               ensures=[('C06.prepare', 'res_view(r) == freeform_prepare(%s)' % S0)]),
            Fn('enforce', ret='r', head=FACTS,
               rewrites=[('A.closure', r'\|s\|\s*(self\.\w+\(s\))', CLOSURE % 'nick_step', (0, 1))],
               ensures=[('C06.enforce', 'res_view(r) == nick_enforce(%s)' % S0)]),
            Fn('compare', ret='r', head=FACTS,
               rewrites=[('A.closure', r'\|s\|\s*(self\.\w+\(s\))', CLOSURE % 'nick_cmp_step', (0, 2))],
               ensures=[('C07.nick_compare', 'r == cmp_spec(nick_canon(as_ref_view(&s1)), nick_canon(as_ref_view(&s2)))')]),
        ]),
        Impl(r'impl\s+Rules\s+for\s+Nickname\b', [
            Fn('additional_mapping_rule', ret='r', head=FACTS,
               ensures=[('C12.nick_mapping', 'res_view(r) == Ok::<Seq<char>, Error>(collapse(%s))' % S0)]),
            Fn('case_mapping_rule', ret='r', head=FACTS,
               ensures=[('C10.nick_case', 'res_view(r) == Ok::<Seq<char>, Error>(lower_seq(%s))' % S0)]),
            Fn('normalization_rule', ret='r', head=FACTS,
               ensures=[('C06.nick_nfkc', 'res_view(r) == Ok::<Seq<char>, Error>(spec_nfkc(%s))' % S0)]),
        ]),
    ] + fast('Nickname', 'get_nickname_profile', 'freeform_prepare(%s)' % S0, 'nick_enforce(%s)' % S0,
             'cmp_spec(nick_canon(as_ref_view(&s1)), nick_canon(as_ref_view(&s2)))'), header=HEADER)
