"""precis-profiles/src/bidi.rs"""
import re
from vlib.extract import Fn, Impl, Verbatim, Text, Module, Loop, eval_writeln_literals
from vlib.rustscan import AnchorLost
from .lib_common import BROADCAST, FACTS

HEADER = '''use super::*;
use crate::vx::*;
use crate::spec::*;
''' + BROADCAST


def bidi_enum(repo):
    rel = 'precis-tools/src/generators/bidi_class.rs'
    txt = eval_writeln_literals(repo, rel, 'generate_bidi_class_enum')
    mo = re.search(r'#\[derive\([^\n]*\)\]\s*\npub enum BidiClass \{.*?\n\}', txt, re.S)
    if not mo:
        raise AnchorLost('BidiClass enum not found in generator output literals')
    return Text('// evaluated from the writeln! literals of %s\n%s\n' % (rel, mo.group(0)))


CS_ALL = 'seq![first].add(class_seq(its))'

COMMON_INV = [
    ('C09.iter', 'IteratorSpec::decrease(&vx_it) is Some'),
    ('C09.n', '0 <= n <= its.len() && cs_all == %s && cs_all.len() == its.len() + 1' % CS_ALL),
    ('C09.rem', 'IteratorSpec::remaining(&vx_it) == its.skip(n)'),
    ('C09.trailing', 'nsm_trailing(cs_all.take(1 + n))'),
    ('C09.prev', 'last_non_nsm(cs_all.take(1 + n)) >= 0 && prev == cs_all[last_non_nsm(cs_all.take(1 + n))]'),
    ('C09.nsm', 'nsm == (cs_all[n] == BidiClass::NSM)'),
]

STEP_HEAD = '''proof {
    assert(its.skip(n).len() > 0);
    assert(c == its[n]);
    assert(IteratorSpec::remaining(&vx_it) =~= its.skip(n + 1));
    assert(cs_all[n + 1] == bidi_of(c));
    assert(cs_all.take(1 + n + 1) =~= cs_all.take(1 + n).push(bidi_of(c)));
    lemma_lnn_push(cs_all.take(1 + n), bidi_of(c));
    lemma_lnn_bounds(cs_all.take(1 + n));
    lemma_lnn_bounds(cs_all);
    // if everything after the current NSM is NSM too, the end class of the label is `prev`
    if forall|k: int| n + 1 <= k < cs_all.len() ==> cs_all[k] == BidiClass::NSM {
        lemma_lnn_trailing(cs_all, n + 1);
    }
    if nsm_trailing(cs_all) && bidi_of(c) == BidiClass::NSM {
        assert forall|k: int| n + 1 <= k < cs_all.len() implies cs_all[k] == BidiClass::NSM by { if k > n + 1 { assert(cs_all[n + 1] == BidiClass::NSM); } }
    }
    n = n + 1;
    assert(cs_all[0] == first);
    assert(cs_all[n] == bidi_of(c));
}'''

POST = '''proof {
    assert(its.skip(n).len() == 0);
    assert(cs_all.take(1 + n) =~= cs_all);
    lemma_lnn_bounds(cs_all);
}'''


def module(repo):
    init = '''let ghost first = prev;
let ghost its = iter_seq(it);
let ghost cs_all = %s;
let ghost mut n: int = 0;
proof {
    assert(cs_all.take(1) =~= seq![first]);
    lemma_lnn_push(Seq::<BidiClass>::empty(), first);
    assert(Seq::<BidiClass>::empty().push(first) =~= seq![first]);
}''' % CS_ALL
    rtl = Fn(
        'is_valid_rtl_label', ret='r', attrs=['#[verifier::loop_isolation(false)]'],
        requires=[('REQ.rtl_first', 'prev == BidiClass::R || prev == BidiClass::AL')],
        ensures=[('C09.rtl', 'r == bidi_impl_lang(seq![prev].add(class_seq(iter_seq(it))))')],
        rewrites=[('W.into_iter', r'(?<=\bin )it\b', 'vx_into_iter(it)', 1)],
        head=init,
        loops={1: Loop(
            invariants=COMMON_INV + [
                ('C09.rtl_first', 'first == BidiClass::R || first == BidiClass::AL'),
                ('C09.rtl_allowed', 'forall|i: int| 0 <= i < 1 + n ==> rtl_allowed(#[trigger] cs_all[i])'),
                ('C09.rtl_en', 'en == has_class(cs_all.take(1 + n), BidiClass::EN)'),
                ('C09.rtl_an', 'an == has_class(cs_all.take(1 + n), BidiClass::AN)'),
                ('C09.rtl_mix', '!(en && an)'),
                ('C09.rtl_nsm_prev', 'nsm ==> rtl_end(prev)'),
            ],
            decreases='IteratorSpec::decrease(&vx_it).unwrap()',
            head=STEP_HEAD.replace('    n = n + 1;\n', '''    let p0 = cs_all.take(1 + n);
    let p1 = cs_all.take(1 + n + 1);
    assert(forall|b: BidiClass| has_class(p1, b) == (has_class(p0, b) || bidi_of(c) == b)) by {
        assert forall|b: BidiClass| has_class(p1, b) == (has_class(p0, b) || bidi_of(c) == b) by {
            if has_class(p0, b) { let i = choose|i: int| 0 <= i < p0.len() && p0[i] == b; assert(p1[i] == b); }
            if bidi_of(c) == b { assert(p1[p1.len() - 1] == b); }
            if has_class(p1, b) { let i = choose|i: int| 0 <= i < p1.len() && p1[i] == b; if i < p0.len() { assert(p0[i] == b); } }
        }
    }
    assert(forall|b: BidiClass| has_class(p1, b) ==> has_class(cs_all, b)) by {
        assert forall|b: BidiClass| has_class(p1, b) implies has_class(cs_all, b) by {
            let i = choose|i: int| 0 <= i < p1.len() && p1[i] == b; assert(cs_all[i] == b);
        }
    }
    n = n + 1;
'''),
            post=POST,
        )},
    )
    ltr = Fn(
        'is_valid_ltr_label', ret='r', attrs=['#[verifier::loop_isolation(false)]'],
        requires=[('REQ.ltr_first', 'prev == BidiClass::L')],
        ensures=[('C09.ltr', 'r == bidi_impl_lang(seq![prev].add(class_seq(iter_seq(it))))')],
        rewrites=[('W.into_iter', r'(?<=\bin )it\b', 'vx_into_iter(it)', 1)],
        head=init,
        loops={1: Loop(
            desugar=True,
            invariants=COMMON_INV + [
                ('C09.ltr_first', 'first == BidiClass::L'),
                ('C09.ltr_allowed', 'forall|i: int| 0 <= i < 1 + n ==> ltr_allowed(#[trigger] cs_all[i])'),
                ('C09.ltr_nsm_prev', 'nsm ==> ltr_end(prev)'),
            ],
            decreases='IteratorSpec::decrease(&vx_it).unwrap()',
            head=STEP_HEAD,
            post=POST,
        )},
    )
    return Module('bidi', 'precis-profiles/src/bidi.rs', [
        bidi_enum(repo),
        Text('pub assume_specification[ <BidiClass as PartialEq>::eq ](a: &BidiClass, b: &BidiClass) -> (r: bool) ensures r == (*a == *b);'),
        # table lookup with default L: verified by Kani against UnicodeData 16.0.0 (ledger tbl_bidi)
        Fn('bidi_class_cp', ret='r', mode='sig', ensures=[('LEDGER.tbl_bidi', 'r == t_bidi(cp)')]),
        Fn('bidi_class', ret='r', ensures=[('C09.bidi_class', 'r == bidi_of(c)')]),
        # A.bind: the closure and the result of find are let-bound so that the proof can name them
        Fn('has_rtl', ret='r',
           rewrites=[('A.bind_closure',
                      r'label\s*\.find\(\|c\|\s*(matches!\((?:[^()]|\([^()]*\))*\))\)\s*\.is_some\(\)',
                      r"""{ let vx_p = |c: char| -> (b: bool) ensures b == is_rtl_class(bidi_of(c)) { \1 };
    let vx_x = label.find(vx_p);
    proof {
        assert forall|i: int| 0 <= i < label@.len() implies (#[trigger] pat_matches(vx_p, label@[i])) == is_rtl_class(bidi_of(label@[i])) by {
            axiom_pat_fn(vx_p, label@[i]);
        }
        match vx_x {
            None => { assert forall|i: int| 0 <= i < label@.len() implies !is_rtl_class(#[trigger] bidi_of(label@[i])) by { assert(!pat_matches(vx_p, label@[i])); } },
            Some(pos) => { let k = choose|k: int| 0 <= k < label@.len() && pos as int == boff(label@, k) && pat_matches(vx_p, label@[k]); assert(is_rtl_class(bidi_of(label@[k]))); },
        }
    }
    vx_x.is_some() }""", 1)],
           ensures=[('C09.has_rtl', 'r == has_rtl_spec(label@)')]),
        Fn('satisfy_bidi_rule', ret='r',
           ensures=[('C09.sound', 'r && label@.len() > 0 ==> rfc5893(class_seq(label@))'),
                    ('C09.complete_trailing_nsm', 'label@.len() > 0 && rfc5893(class_seq(label@)) && nsm_trailing(class_seq(label@)) ==> r'),
                    ('C09.impl', 'r == bidi_rule_impl(label@)')],
           inserts=[(r'let first = bidi_class\(c\);', 1, 'after',
                     '''proof {
    assert(label@.len() > 0 && c == label@[0]);
    assert(IteratorSpec::remaining(&it) =~= label@.skip(1));
    assert(class_seq(label@) =~= seq![first].add(class_seq(label@.skip(1))));
    lemma_lnn_bounds(class_seq(label@));
}''')]),
        rtl, ltr,
    ], header=HEADER)


def exact_lemma():
    return None
