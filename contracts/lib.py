"""Contracts for precis-core + precis-profiles (one Verus file, module tree mirrors the crates)."""
import os
from vlib.extract import Fn, Impl, Verbatim, Text, Module, Loop, eval_writeln_literals
from .lib_common import BROADCAST, FACTS

HERE = os.path.dirname(__file__)


def rd(name):
    with open(os.path.join(HERE, name), encoding='utf-8') as f:
        return f.read()


ROOT_HEADER = '''// GENERATED on every run by /verif/vlib from /repo's working tree. Do not edit.
#![allow(unused_imports, unused_variables, unused_mut, dead_code, unused_assignments, non_snake_case, unreachable_code, unused_parens)]
use vstd::prelude::*;
use vstd::string::*;
use vstd::utf8::*;
use vstd::std_specs::iter::*;
use vstd::slice::*;
use std::borrow::Cow;
use vstd::std_specs::convert::*;
'''


def modules(repo):
    from . import core_error, core_common, core_context, core_stringclasses, core_profile, profiles_common, profiles_bidi, profiles_passwords, profiles_usernames, nicknames
    spec = Module('spec', None, [Text(rd('spec_spaces.rs'), tag='C12+C05.spec_lemmas'), Text(rd('spec_core.rs'), tag='C02+C03+C14.spec_lemmas'), Text(rd('spec_stabilize.rs'), tag='C13.spec_lemmas'), Text(rd('spec_profiles.rs'), tag='C04+C05+C06+C07+C08+C10+C11.spec_lemmas'), Text(rd('spec_bidi.rs'), tag='C09.spec_lemmas'), Text(rd('spec_bidi_exact.rs'), tag='C09.exact')], header='use super::*;\nuse crate::vx::*;\nuse crate::precis_core::DerivedPropertyValue;\n')
    core = Module('precis_core', None, [
        core_error.derived_property_enum(repo),
        core_error.module(repo),
        core_common.module(repo),
        core_context.module(repo),
        core_stringclasses.module(repo),
        core_profile.module(repo),
    ], header='use super::*;\npub use self::error::{Error, UnexpectedError, CodepointInfo};\n')
    profiles = Module('precis_profiles', None, [
        profiles_common.module(repo),
        profiles_bidi.module(repo),
        profiles_passwords.module(repo),
        profiles_usernames.module(repo),
        nicknames.module(repo),
    ], header='use super::*;\n')
    return [spec, core, profiles]
