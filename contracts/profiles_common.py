"""precis-profiles/src/common.rs"""
from vlib.extract import Fn, Impl, Verbatim, Text, Module, Loop
from .lib_common import BROADCAST, FACTS

S0 = "IntoSpec::<Cow<str>>::into_spec(s)@"
INTO = ('REQ.into', "<T as IntoSpec<Cow<'a, str>>>::obeys_into_spec()")


def module(repo):
    nf = lambda name, sp, tag: Fn(name, ret='r', requires=[INTO], head=FACTS,
                                  ensures=[(tag, 'res_view(r) == Ok::<Seq<char>, Error>(%s(%s))' % (sp, S0))])
    case = Fn(
        'case_mapping_rule', ret='r', requires=[INTO], head=FACTS,
        ensures=[('C10.lower', 'res_view(r) == Ok::<Seq<char>, Error>(lower_seq(%s))' % S0)],
        inserts=[
            (r'match s\.find\(', 1, 'before',
             '''proof {
    if forall|i: int| 0 <= i < s@.len() ==> !pat_matches(has_lowercase_mapping, #[trigger] s@[i]) {
        assert forall|i: int| 0 <= i < s@.len() implies spec_lower(#[trigger] s@[i]) == seq![s@[i]] by {
            axiom_pat_fn(has_lowercase_mapping, s@[i]);
        }
        lemma_lower_id(s@);
    }
}'''),
            (r'let mut res = String::from', 1, 'before',
             '''let ghost k: int = choose|k: int| 0 <= k < s@.len() && pos as int == boff(s@, k) && pat_matches(has_lowercase_mapping, s@[k])
    && forall|i: int| 0 <= i < k ==> !pat_matches(has_lowercase_mapping, #[trigger] s@[i]);
proof {
    lemma_boff(s@, k);
    assert forall|i: int| 0 <= i < s@.take(k).len() implies spec_lower(#[trigger] s@.take(k)[i]) == seq![s@.take(k)[i]] by {
        axiom_pat_fn(has_lowercase_mapping, s@[i]);
    }
    lemma_lower_id(s@.take(k));
}'''),
        ],
        loops={1: Loop(ghost='it', invariants=[
            ('C10.k', '0 <= k <= s@.len()'),
            ('C10.seq', 'it.seq() == s@.skip(k)'),
            ('C10.res', 'res@ == lower_seq(s@.take(k + it.index@))'),
        ], head='''proof {
    let i = it.index@;
    assert(s@.take(k + i + 1) =~= s@.take(k + i).push(s@[k + i]));
    lemma_lower_push(s@.take(k + i), c);
}''', post='proof { assert(s@.take(s@.len() as int) =~= s@); }')},
    )
    return Module('common', 'precis-profiles/src/common.rs', [
        Verbatim(r'pub\s+const\s+SPACE\b'),
        # table lookup: body verified by Kani against the UCD oracle (ledger `tbl_zs`)
        Fn('is_space_separator', ret='r', mode='sig', ensures=[('LEDGER.tbl_zs', 'r == zs(c)')]),
        Fn('is_non_ascii_space', ret='r', ensures=[('C12.nas', 'r == nas(c)')]),
        nf('normalization_form_nfkc', 'spec_nfkc', 'C06.nfkc'),
        nf('normalization_form_nfc', 'spec_nfc', 'C04+C05.nfc'),
        # iterates std's ToLowercase: verified by Kani for all chars on the real std (ledger `has_lower_mapping`)
        Fn('has_lowercase_mapping', ret='r', mode='sig',
           ensures=[('LEDGER.has_lower_mapping', 'r == (spec_lower(c) != seq![c])')]),
        case,
    ], header='use super::*;\nuse crate::vx::*;\nuse crate::spec::*;\nuse crate::precis_core::Error;\n' + BROADCAST)
