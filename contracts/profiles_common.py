"""precis-profiles/src/common.rs"""
from vlib.extract import Fn, Impl, Verbatim, Text, Module, Loop
from .lib_common import BROADCAST, FACTS


def module(repo):
    return Module('common', 'precis-profiles/src/common.rs', [
        Verbatim(r'pub\s+const\s+SPACE\b'),
        # table lookup: body verified by Kani against the UCD oracle (ledger `zs_table`)
        Fn('is_space_separator', ret='r', mode='sig', ensures=[('LEDGER.zs_table', 'r == zs(c)')]),
        Fn('is_non_ascii_space', ret='r', ensures=[('C12.nas', 'r == nas(c)')]),
    ], header='use super::*;\nuse crate::vx::*;\nuse crate::spec::*;\nuse crate::precis_core::Error;\n' + BROADCAST)
