"""precis-profiles/src/usernames.rs"""
from vlib.extract import Fn, Impl, Verbatim, Text, Module, Loop
from .lib_common import BROADCAST, FACTS
from .nicknames import fast

HEADER = '''use super::*;
use crate::vx::*;
use crate::spec::*;
use crate::precis_profiles::bidi;
use crate::precis_profiles::common;
use crate::precis_core::profile::{PrecisFastInvocation, Profile, Rules};
use crate::precis_core::{Error, UnexpectedError};
use crate::precis_core::stringclasses::{IdentifierClass, StringClass, allows_spec};
''' + BROADCAST

S0 = "IntoSpec::<Cow<str>>::into_spec(s)@"
INTO_S = ('REQ.into', "<S as IntoSpec<Cow<'a, str>>>::obeys_into_spec()")
INTO_T = ('REQ.into', "<T as IntoSpec<Cow<'a, str>>>::obeys_into_spec()")
ID_EXT = 'proof { assert((|c: char| self.0.value(c)) =~= id_vf()); }'


def profile(name, mapped):
    rules = [
        Fn('width_mapping_rule', ret='r', head=FACTS,
           ensures=[('C11.width_rule', 'res_view(r) == Ok::<Seq<char>, Error>(width_str(%s))' % S0)]),
    ]
    if mapped:
        rules.append(Fn('case_mapping_rule', ret='r', head=FACTS,
                        ensures=[('C10.case_rule', 'res_view(r) == Ok::<Seq<char>, Error>(lower_seq(%s))' % S0)]))
    rules += [
        Fn('normalization_rule', ret='r', head=FACTS,
           ensures=[('C04.nfc_rule', 'res_view(r) == Ok::<Seq<char>, Error>(spec_nfc(%s))' % S0)]),
        Fn('directionality_rule', ret='r', head=FACTS,
           ensures=[('C09.dir_rule', 'res_view(r) == dir_rule(%s)' % S0)]),
    ]
    m = 'true' if mapped else 'false'
    return [
        Verbatim(r'pub\s+struct\s+%s\b' % name),
        Impl(r'impl\s+%s\b' % name, [Fn('new', ret='r')]),
        Impl(r'impl\s+Profile\s+for\s+%s\b' % name, [
            Fn('prepare', ret='r', head=FACTS,
               ensures=[('C04.prepare', 'res_view(r) == user_prepare(%s)' % S0)],
               inserts=[(r'self\.0\.allows\(&s\)\?;', 1, 'before', ID_EXT)]),
            Fn('enforce', ret='r', head=FACTS,
               ensures=[('C04.enforce', 'res_view(r) == user_enforce(%s, %s)' % (S0, m))]),
            Fn('compare', ret='r', head=FACTS,
               ensures=[('C07.user_compare', 'r == cmp_spec(user_enforce(as_ref_view(&s1), %s), user_enforce(as_ref_view(&s2), %s))' % (m, m))]),
        ]),
        Impl(r'impl\s+Rules\s+for\s+%s\b' % name, rules),
    ]


def module(repo):
    wmr = Fn(
        'width_mapping_rule', ret='r', requires=[INTO_T], head=FACTS,
        ensures=[('C11.width', 'res_view(r) == Ok::<Seq<char>, Error>(width_str(%s))' % S0)],
        inserts=[
            (r'match s\.find\(', 1, 'before',
             '''proof {
    if forall|i: int| 0 <= i < s@.len() ==> !pat_matches(has_width_mapping, #[trigger] s@[i]) {
        assert forall|i: int| 0 <= i < s@.len() implies width_char(#[trigger] s@[i]) == s@[i] by {
            axiom_pat_fn(has_width_mapping, s@[i]);
        }
        assert(width_str(s@) =~= s@);
    }
}'''),
            (r'let mut res = String::from', 1, 'before',
             '''let ghost k: int = choose|k: int| 0 <= k < s@.len() && pos as int == boff(s@, k) && pat_matches(has_width_mapping, s@[k])
    && forall|i: int| 0 <= i < k ==> !pat_matches(has_width_mapping, #[trigger] s@[i]);
proof {
    lemma_boff(s@, k);
    assert forall|i: int| 0 <= i < k implies width_char(#[trigger] s@[i]) == s@[i] by { axiom_pat_fn(has_width_mapping, s@[i]); }
    assert(width_str(s@.take(k)) =~= s@.take(k));
}'''),
        ],
        loops={1: Loop(ghost='it', invariants=[
            ('C11.k', '0 <= k <= s@.len()'),
            ('C11.seq', 'it.seq() == s@.skip(k)'),
            ('C11.res', 'res@ == width_str(s@.take(k + it.index@))'),
        ], head='''proof {
    let i = it.index@;
    assert(s@.take(k + i + 1) =~= s@.take(k + i).push(s@[k + i]));
    assert(width_str(s@.take(k + i + 1)) =~= width_str(s@.take(k + i)).push(width_char(c)));
    axiom_width_scalar(c as u32);
}''', post='proof { assert(s@.take(s@.len() as int) =~= s@); }')},
    )
    return Module('usernames', 'precis-profiles/src/usernames.rs', [
        # table lookup: verified by Kani against UnicodeData 16.0.0 decomposition tags (ledger tbl_width)
        Fn('get_decomposition_mapping', ret='r', mode='sig', ensures=[('LEDGER.tbl_width', 'r == t_width(cp)')]),
        Fn('has_width_mapping', ret='r', ensures=[('C11.has_width', 'r == (t_width(c as u32) is Some)')]),
        wmr,
        Fn('directionality_rule', ret='r', requires=[INTO_T], head=FACTS,
           ensures=[('C09.directionality', 'res_view(r) == dir_rule(%s)' % S0),
                    ('C09.unchanged', 'r matches Ok(x) ==> x@ == %s' % S0)]),
    ] + profile('UsernameCaseMapped', True) + profile('UsernameCasePreserved', False)
      + fast('UsernameCaseMapped', 'get_username_case_mapped_profile', 'user_prepare(%s)' % S0, 'user_enforce(%s, true)' % S0,
             'cmp_spec(user_enforce(as_ref_view(&s1), true), user_enforce(as_ref_view(&s2), true))')
      + fast('UsernameCasePreserved', 'get_username_case_preserved_profile', 'user_prepare(%s)' % S0, 'user_enforce(%s, false)' % S0,
             'cmp_spec(user_enforce(as_ref_view(&s1), false), user_enforce(as_ref_view(&s2), false))'), header=HEADER)
