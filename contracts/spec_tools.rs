// SPEC (ghost only) for the table generators: what a vector of entries denotes and when it is searchable
// the way the library searches it (binary_search_by over the Codepoints comparisons, C18).
pub open spec fn lo(e: Codepoints) -> int { match e { Codepoints::Single(c) => c.v() as int, Codepoints::Range(r) => r.start.v() as int } }
pub open spec fn hi(e: Codepoints) -> int { match e { Codepoints::Single(c) => c.v() as int, Codepoints::Range(r) => r.end.v() as int } }
pub open spec fn covers(e: Codepoints, x: int) -> bool { lo(e) <= x <= hi(e) }
pub open spec fn covered(v: Seq<Codepoints>, x: int) -> bool { exists|i: int| 0 <= i < v.len() && covers(#[trigger] v[i], x) }

// entries are non-empty and strictly increasing: a binary search finds the entry containing x iff one exists
pub open spec fn well_formed(v: Seq<Codepoints>) -> bool {
    &&& forall|i: int| 0 <= i < v.len() ==> lo(#[trigger] v[i]) <= hi(v[i])
    &&& forall|i: int, j: int| 0 <= i < j < v.len() ==> hi(#[trigger] v[i]) < lo(#[trigger] v[j])
}
// the weaker shape the Unassigned generator produces (finding F8): an entry may be empty with lo == hi + 1;
// it denotes nothing and keeps the table searchable (C18 codepoints_cmp_empty_entries)
pub open spec fn searchable(v: Seq<Codepoints>) -> bool {
    &&& forall|i: int| 0 <= i < v.len() ==> lo(#[trigger] v[i]) <= hi(v[i]) + 1
    &&& forall|i: int, j: int| 0 <= i < j < v.len() ==> hi(#[trigger] v[i]) < lo(#[trigger] v[j])
}

pub proof fn lemma_covered_push(v: Seq<Codepoints>, e: Codepoints, x: int)
    ensures covered(v.push(e), x) <==> (covered(v, x) || covers(e, x))
{
    let w = v.push(e);
    if covered(v, x) { let i = choose|i: int| 0 <= i < v.len() && covers(#[trigger] v[i], x); assert(w[i] == v[i]); }
    if covers(e, x) { assert(w[v.len() as int] == e); }
    if covered(w, x) { let i = choose|i: int| 0 <= i < w.len() && covers(#[trigger] w[i], x); if i < v.len() { assert(w[i] == v[i]); } }
}

pub proof fn lemma_well_formed_push(v: Seq<Codepoints>, e: Codepoints)
    requires well_formed(v), lo(e) <= hi(e), forall|i: int| 0 <= i < v.len() ==> hi(#[trigger] v[i]) < lo(e)
    ensures well_formed(v.push(e))
{
    let w = v.push(e);
    assert forall|i: int| 0 <= i < w.len() implies lo(#[trigger] w[i]) <= hi(w[i]) by { if i < v.len() { assert(w[i] == v[i]); } }
    assert forall|i: int, j: int| 0 <= i < j < w.len() implies hi(#[trigger] w[i]) < lo(#[trigger] w[j]) by {
        assert(w[i] == v[i]);
        if j < v.len() { assert(w[j] == v[j]); }
    }
}

// a searchable table never has two entries containing the same code point (so, in a value table, no code point
// is covered by two entries with different values)
pub proof fn lemma_no_overlap(v: Seq<Codepoints>, i: int, j: int, x: int)
    requires searchable(v), 0 <= i < v.len(), 0 <= j < v.len(), covers(v[i], x), covers(v[j], x)
    ensures i == j
{
    if i < j { assert(hi(v[i]) < lo(v[j])); }
    if j < i { assert(hi(v[j]) < lo(v[i])); }
}

// ---- value tables (code point entries paired with a class name)
pub open spec fn keys(v: Seq<(Codepoints, String)>) -> Seq<Codepoints> { v.map_values(|p: (Codepoints, String)| p.0) }
// "x has class s in table v"
pub open spec fn assoc(v: Seq<(Codepoints, String)>, x: int, s: Seq<char>) -> bool {
    exists|i: int| 0 <= i < v.len() && covers(#[trigger] v[i].0, x) && v[i].1@ == s
}
pub open spec fn all_below(v: Seq<(Codepoints, String)>, b: int) -> bool {
    forall|i: int| 0 <= i < v.len() ==> hi(#[trigger] v[i].0) < b
}

pub proof fn lemma_assoc_push(v: Seq<(Codepoints, String)>, p: (Codepoints, String), x: int, s: Seq<char>)
    ensures assoc(v.push(p), x, s) <==> (assoc(v, x, s) || (covers(p.0, x) && p.1@ == s))
{
    let w = v.push(p);
    if assoc(v, x, s) { let i = choose|i: int| 0 <= i < v.len() && covers(#[trigger] v[i].0, x) && v[i].1@ == s; assert(w[i] == v[i]); }
    if covers(p.0, x) && p.1@ == s { assert(w[v.len() as int] == p); }
    if assoc(w, x, s) { let i = choose|i: int| 0 <= i < w.len() && covers(#[trigger] w[i].0, x) && w[i].1@ == s; if i < v.len() { assert(w[i] == v[i]); } }
}

pub proof fn lemma_keys_push(v: Seq<(Codepoints, String)>, p: (Codepoints, String))
    requires well_formed(keys(v)), lo(p.0) <= hi(p.0), all_below(v, lo(p.0))
    ensures well_formed(keys(v.push(p))), keys(v.push(p)) == keys(v).push(p.0)
{
    assert(keys(v.push(p)) =~= keys(v).push(p.0));
    assert forall|i: int| 0 <= i < keys(v).len() implies hi(#[trigger] keys(v)[i]) < lo(p.0) by { assert(keys(v)[i] == v[i].0); }
    lemma_well_formed_push(keys(v), p.0);
}

pub proof fn lemma_all_below_push(v: Seq<(Codepoints, String)>, p: (Codepoints, String), b: int)
    requires all_below(v, b), hi(p.0) < b
    ensures all_below(v.push(p), b)
{
    let w = v.push(p);
    assert forall|i: int| 0 <= i < w.len() implies hi(#[trigger] w[i].0) < b by { if i < v.len() { assert(w[i] == v[i]); } }
}
pub proof fn lemma_all_below_mono(v: Seq<(Codepoints, String)>, a: int, b: int)
    requires all_below(v, a), a <= b
    ensures all_below(v, b)
{
}

// what the compression loop holds after k rows: the written table plus the pending run
pub open spec fn have(out: Seq<(Codepoints, String)>, range: Option<CodepointRange>, val: Option<String>, x: int, s: Seq<char>) -> bool {
    assoc(out, x, s) || (range matches Some(r) && r.start.v() <= x <= r.end.v() && val is Some && val->Some_0@ == s)
}
pub open spec fn seen(rows: Seq<(Codepoints, String)>, k: int, x: int, s: Seq<char>) -> bool {
    exists|j: int| 0 <= j < k && covers(#[trigger] rows[j].0, x) && rows[j].1@ == s
}

// set tables: what the merge loop of get_codepoints_vector holds after k sorted values
pub open spec fn have_set(out: Seq<Codepoints>, range: Option<CodepointRange>, x: int) -> bool {
    covered(out, x) || (range matches Some(r) && r.start.v() <= x <= r.end.v())
}
pub open spec fn seen_vals(vals: Seq<int>, k: int, x: int) -> bool {
    exists|i: int| 0 <= i < k && #[trigger] vals[i] == x
}

// ---- composition (lemma over the contracts; the driver loops over Box<dyn UcdLineParser> themselves are not verified):
// a set table generator that starts from the empty set and sees the rows one by one (contract of
// UcdTableGen::process_entry / ViramaTableGen::process_entry), followed by get_codepoints_vector, emits a table that
// denotes exactly the code points of the rows whose key matches.
pub struct KeyedRow { pub lo: int, pub hi: int, pub matches: bool }
pub open spec fn selected(rows: Seq<KeyedRow>, k: int, x: int) -> bool {
    exists|i: int| 0 <= i < k && (#[trigger] rows[i]).matches && rows[i].lo <= x <= rows[i].hi
}
// one step: the post-state described by the process_entry contract
pub open spec fn step_ok(before: Set<u32>, after: Set<u32>, r: KeyedRow) -> bool {
    forall|x: u32| after.contains(x) <==> (before.contains(x) || (r.matches && r.lo <= x <= r.hi))
}
pub proof fn lemma_set_table_step(rows: Seq<KeyedRow>, k: int, before: Set<u32>, after: Set<u32>)
    requires
        0 <= k < rows.len(),
        forall|x: u32| before.contains(x) <==> selected(rows, k, x as int),
        step_ok(before, after, rows[k]),
    ensures forall|x: u32| after.contains(x) <==> selected(rows, k + 1, x as int)
{
    assert forall|x: u32| after.contains(x) <==> selected(rows, k + 1, x as int) by {
        if selected(rows, k, x as int) { let i = choose|i: int| 0 <= i < k && (#[trigger] rows[i]).matches && rows[i].lo <= x as int <= rows[i].hi; assert(0 <= i < k + 1); }
        if rows[k].matches && rows[k].lo <= x as int <= rows[k].hi { assert(0 <= k < k + 1 && rows[k].matches); }
        if selected(rows, k + 1, x as int) {
            let i = choose|i: int| 0 <= i < k + 1 && (#[trigger] rows[i]).matches && rows[i].lo <= x as int <= rows[i].hi;
            if i < k { assert(selected(rows, k, x as int)); }
        }
    }
}
pub proof fn lemma_set_table_final(rows: Seq<KeyedRow>, set: Set<u32>, table: Seq<Codepoints>)
    requires
        forall|x: u32| set.contains(x) <==> selected(rows, rows.len() as int, x as int),
        // postcondition of get_codepoints_vector
        well_formed(table),
        forall|x: u32| covered(table, x as int) <==> set.contains(x),
    ensures
        searchable(table),
        forall|x: u32| covered(table, x as int) <==> selected(rows, rows.len() as int, x as int),
{
}
