// [C09.exact] the implemented language is exactly the RFC 5893 rule.  KNOWN NOT TO HOLD (finding F5):
// classes R NSM R satisfy all six conditions but are rejected.  Kept as a named obligation so that the
// deviation is reported on every run and disappears only when the implementation is repaired.
pub proof fn lemma_bidi_exact(cs: Seq<BidiClass>)
    ensures bidi_impl_lang(cs) == rfc5893(cs)
{
}
