// MODEL of the ucd-parse 0.1 types the generators use (external crate, trusted): a code point is a u32 that is
// at most 0x10FFFF; ranges and the Single/Range sum type have public fields exactly as in ucd-parse.
#[derive(Clone, Copy, Debug, PartialEq, Eq)]
pub struct Codepoint(pub u32);

#[derive(Debug)]
pub struct Error {}

impl Codepoint {
    pub open spec fn v(self) -> u32 { self.0 }
    #[verifier::external_body]
    pub fn from_u32(n: u32) -> (r: Result<Codepoint, Error>)
        ensures
            n <= 0x10FFFF ==> r is Ok && r->Ok_0.v() == n,
            n > 0x10FFFF ==> r is Err,
    { unimplemented!() }
    #[verifier::external_body]
    pub fn value(self) -> (r: u32)
        ensures r == self.v()
    { unimplemented!() }
}

#[derive(Clone, Copy, Debug, PartialEq, Eq)]
pub struct CodepointRange {
    pub start: Codepoint,
    pub end: Codepoint,
}

impl Default for Codepoints { #[verifier::external_body] fn default() -> Self { unimplemented!() } }
#[derive(Clone, Copy, Debug, PartialEq, Eq)]
pub enum Codepoints {
    Single(Codepoint),
    Range(CodepointRange),
}

// W.sorted_refs: `let mut vec = Vec::new(); codepoints.iter().for_each(|cp| { vec.push(cp); }); vec.sort();`
// (HashSet iteration order + slice::sort: assumed to yield the elements of the set in strictly ascending order)
#[verifier::external_body]
pub fn vx_sorted_refs<'a>(codepoints: &'a HashSet<u32>) -> (vec: Vec<&'a u32>)
    ensures
        forall|i: int, j: int| 0 <= i < j < vec@.len() ==> *vec@[i] < *vec@[j],
        forall|i: int| 0 <= i < vec@.len() ==> codepoints@.contains(*#[trigger] vec@[i]),
        forall|x: u32| codepoints@.contains(x) ==> exists|i: int| 0 <= i < vec@.len() && *vec@[i] == x,
{
    let mut vec = Vec::new();
    codepoints.iter().for_each(|cp| {
        vec.push(cp);
    });
    vec.sort();
    vec
}

pub assume_specification[ <Codepoint as PartialEq>::eq ](a: &Codepoint, b: &Codepoint) -> (r: bool)
    ensures r == (a.v() == b.v());

// String equality is equality of contents; String::from(&str) keeps the contents (std, trusted)
pub axiom fn string_facts()
    ensures
        <String as vstd::std_specs::cmp::PartialEqSpec<String>>::obeys_eq_spec(),
        <String as vstd::std_specs::convert::FromSpec<&str>>::obeys_from_spec();
pub broadcast axiom fn axiom_string_eq(a: &String, b: &String)
    ensures #[trigger] <String as vstd::std_specs::cmp::PartialEqSpec<String>>::eq_spec(a, b) == (a@ == b@);
pub broadcast axiom fn axiom_string_from_str(v: &str)
    ensures (#[trigger] <String as vstd::std_specs::convert::FromSpec<&str>>::from_spec(v))@ == v@;

// decomposition field of a UnicodeData row (ucd-parse): formatting tag, number of code points, the code points
#[derive(Clone, Copy, Debug, PartialEq, Eq)]
pub enum UnicodeDataDecompositionTag { Font, NoBreak, Initial, Medial, Final, Isolated, Circle, Super, Sub, Vertical, Wide, Narrow, Small, Square, Fraction, Compat }
pub assume_specification[ <UnicodeDataDecompositionTag as PartialEq>::eq ](a: &UnicodeDataDecompositionTag, b: &UnicodeDataDecompositionTag) -> (r: bool)
    ensures r == (*a == *b);
#[derive(Debug, PartialEq, Eq)]
pub struct UnicodeDataDecomposition {
    pub tag: Option<UnicodeDataDecompositionTag>,
    pub len: usize,
    pub mapping: [Codepoint; 18],
}
impl Clone for UnicodeDataDecomposition { #[verifier::external_body] fn clone(&self) -> (r: Self) ensures r == *self { unimplemented!() } }
impl Default for UnicodeDataDecomposition { #[verifier::external_body] fn default() -> Self { unimplemented!() } }
