BROADCAST = '''broadcast use {crate::vx::axiom_pat_fn, crate::vx::axiom_cow_str_deref, crate::vx::axiom_str_len_bound, crate::vx::axiom_str_chars_bound,
    crate::vx::axiom_cow_from_string, crate::vx::axiom_cow_from_str, crate::vx::axiom_cow_from_cow, crate::vx::axiom_string_from_str,
    crate::vx::lemma_slice_to_view, crate::vx::lemma_slice_from_view, crate::vx::axiom_cow_str_eq, crate::vx::axiom_string_eq,
    crate::vx::axiom_cow_str_into_owned, crate::vx::axiom_as_ref_str, crate::vx::axiom_as_ref_ref_str,
    crate::vx::axiom_as_ref_cow, crate::vx::axiom_as_ref_ref_cow, crate::spec::axiom_zs_space, crate::vx::axiom_iter_seq_chars, crate::spec::axiom_width_scalar, crate::spec::axiom_lower_of_lowercase};
'''
FACTS = 'broadcast use crate::vx::axiom_pat_fn;\nproof { crate::vx::std_facts(); }'
