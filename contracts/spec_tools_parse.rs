// SPEC (ghost only): folding of `<.., First>` / `<.., Last>` rows of UnicodeData.txt into ranges.
use crate::ucd_parsers::UnicodeData;
// one output row: its code points and the index of the raw row whose fields it carries
pub struct Folded { pub lo: int, pub hi: int, pub src: int }

// state of the fold after the first k raw rows: rows produced so far, start of a pending First (if any), or an error
pub enum FoldState { Ok(Seq<Folded>, Option<int>), Err }

pub open spec fn fold_step(st: FoldState, raws: Seq<RawUnicodeData>, k: int) -> FoldState {
    match st {
        FoldState::Err => FoldState::Err,
        FoldState::Ok(out, pending) => {
            let r = &raws[k];
            let cp = r.codepoint.v() as int;
            match pending {
                Some(start) =>
                    // a First must be followed immediately by its Last, and start <= end
                    if !raw_last(r) || start > cp || raw_first(r) { FoldState::Err }
                    else { FoldState::Ok(out.push(Folded { lo: start, hi: cp, src: k }), None) },
                None =>
                    if raw_last(r) { FoldState::Err }
                    else if raw_first(r) { FoldState::Ok(out, Some(cp)) }
                    else { FoldState::Ok(out.push(Folded { lo: cp, hi: cp, src: k }), None) },
            }
        },
    }
}
pub open spec fn fold(raws: Seq<RawUnicodeData>, k: int) -> FoldState
    decreases k
{
    if k <= 0 { FoldState::Ok(Seq::empty(), None) } else { fold_step(fold(raws, k - 1), raws, k - 1) }
}

// an emitted row carries the code points of the folded row and the fields of its source raw row
pub open spec fn row_matches(u: UnicodeData, f: Folded, raws: Seq<RawUnicodeData>) -> bool {
    &&& lo(u.codepoints) == f.lo && hi(u.codepoints) == f.hi
    &&& (u.codepoints is Range <==> f.lo != f.hi || raw_last(&raws[f.src]))
    &&& 0 <= f.src < raws.len()
    &&& u.general_category@ == raws[f.src].general_category@
    &&& u.canonical_combining_class == raws[f.src].canonical_combining_class
    &&& u.bidi_class@ == raws[f.src].bidi_class@
    &&& u.decomposition == raws[f.src].decomposition
}
pub open spec fn rows_match(xs: Seq<UnicodeData>, fs: Seq<Folded>, raws: Seq<RawUnicodeData>) -> bool {
    xs.len() == fs.len() && forall|i: int| 0 <= i < xs.len() ==> row_matches(#[trigger] xs[i], fs[i], raws)
}

// an error is final: later rows cannot repair it
pub proof fn lemma_fold_err(raws: Seq<RawUnicodeData>, k: int, n: int)
    requires 0 <= k <= n
    ensures fold(raws, k) is Err ==> fold(raws, n) is Err
    decreases n - k
{
    if k < n {
        lemma_fold_err(raws, k + 1, n);
        assert(fold(raws, k + 1) == fold_step(fold(raws, k), raws, k));
    }
}
