"""Contracts for precis-tools generators (C15): the in-memory algorithms between parsed rows and the
vector handed to the file writer."""
import os
from vlib.extract import Fn, Impl, Verbatim, Text, Module, Loop, StructFields

HERE = os.path.dirname(__file__)


def rd(name):
    with open(os.path.join(HERE, name), encoding='utf-8') as f:
        return f.read()


ROOT_HEADER = '''// GENERATED on every run by /verif/vlib from /repo's working tree. Do not edit.
#![allow(unused_imports, unused_variables, unused_mut, dead_code, unused_assignments, non_snake_case, unreachable_code, unused_parens)]
use vstd::prelude::*;
use vstd::std_specs::iter::*;
use std::collections::HashSet;
'''


def modules(repo):
    model = Module('ucd_parse', None, [Text(rd('tools_model.rs'))], header='use super::*;\n')
    spec = Module('spec', None, [Text(rd('spec_tools.rs'), tag='C15.spec_lemmas')], header='use super::*;\nuse crate::ucd_parse::*;\n')
    entry = 'if r.start.v() == r.end.v() { Codepoints::Single(r.start) } else { Codepoints::Range(*r) }'
    common = Module('common', 'precis-tools/src/common.rs', [
        Fn('add_codepoints',
           ensures=[('C15.add_codepoints', 'final(vec)@ == old(vec)@.push(if range.start.v() == range.end.v() { Codepoints::Single(range.start) } else { Codepoints::Range(*range) })')]),
        Fn('add_range',
           ensures=[('C15.add_range', 'match range { Some(r) => final(out)@ == old(out)@.push(%s), None => final(out)@ == old(out)@ }' % entry)]),
        # `format!` in the error path: signature only; HashSet::insert semantics assumed
        Fn('insert_codepoint', ret='r', mode='sig',
           ensures=[('TRUSTED.insert_codepoint', 'match r { Ok(_) => !old(set)@.contains(cp) && final(set)@ == old(set)@.insert(cp), Err(_) => old(set)@.contains(cp) && final(set)@ == old(set)@ }')]),
        Fn('insert_codepoint_range', ret='r',
           requires=[('REQ.range_order', 'range.start.v() <= range.end.v()')],
           ensures=[('C15.insert_range_ok', 'r is Ok ==> forall|x: u32| final(set)@.contains(x) <==> (old(set)@.contains(x) || range.start.v() <= x <= range.end.v())'),
                    ('C15.insert_range_fresh', 'r is Ok ==> forall|x: u32| range.start.v() <= x <= range.end.v() ==> !old(set)@.contains(x)'),
                    ('C15.insert_range_err', 'r is Err ==> exists|x: u32| range.start.v() <= x <= range.end.v() && old(set)@.contains(x)')],
           head='let ghost set0 = set@;',
           loops={1: Loop(ghost='it', invariants=[
               ('C15.ir_set', 'forall|x: u32| set@.contains(x) <==> (set0.contains(x) || (range.start.v() <= x && (x as int) < range.start.v() + it.index@))'),
               ('C15.ir_fresh', 'forall|x: u32| range.start.v() <= x && (x as int) < range.start.v() + it.index@ ==> !set0.contains(x)'),
               ('C15.ir_old', 'set0 == old(set)@'),
               ('C15.ir_seq', 'range.start.v() <= range.end.v() && it.seq() =~= Seq::new((range.end.v() - range.start.v() + 1) as nat, |i: int| (range.start.v() + i) as u32)'),
           ], head='proof { assert(cp == range.start.v() + it.index@); assert(range.start.v() <= cp <= range.end.v()); assert(set@.contains(cp) ==> set0.contains(cp)); assert(set0 == old(set)@); }')}),
        Fn('get_codepoints_vector', ret='res',
           requires=[('REQ.valid_cps', 'forall|x: u32| codepoints@.contains(x) ==> x <= 0x10FFFF')],
           ensures=[('C15.set_table_well_formed', 'well_formed(res@)'),
                    ('C15.set_table_denotes', 'forall|x: u32| covered(res@, x as int) <==> codepoints@.contains(x)')],
           rewrites=[('W.sorted_refs', r'let mut vec = Vec::new\(\);\s*codepoints\.iter\(\)\.for_each\(\|cp\| \{\s*vec\.push\(cp\);\s*\}\);\s*vec\.sort\(\);', 'let vec = vx_sorted_refs(codepoints);', 1)],
           inserts=[(r'let mut out = Vec::new\(\);', 1, 'before', 'let ghost vals: Seq<int> = Seq::new(vec@.len(), |i: int| *vec@[i] as int);\nlet ghost mut done: int = 0;'),
                    (r'add_range\(&range, &mut out\);', 2, 'before', 'let ghost out1 = out@;'),
                    (r'add_range\(&range, &mut out\);', 2, 'after', '''proof {
    assert(done == vec@.len());
    if out@ != out1 {
        let e = out@.last();
        assert(out@ =~= out1.push(e));
        lemma_well_formed_push(out1, e);
        assert forall|x: int| covered(out@, x) <==> (covered(out1, x) || covers(e, x)) by { lemma_covered_push(out1, e, x); }
    }
    assert forall|x: u32| covered(out@, x as int) <==> codepoints@.contains(x) by {
        let xi = x as int;
        let rhs = seen_vals(vals, done, xi);
        assert(have_set(out1, range, xi) <==> rhs);
        match range {
            Some(r) => {
                let e = out@.last();
                assert(out@ =~= out1.push(e));
                lemma_covered_push(out1, e, xi);
                assert(covers(e, xi) <==> r.start.v() <= xi <= r.end.v());
            },
            None => { assert(out@ =~= out1); },
        }
        assert(covered(out@, xi) <==> rhs);
        if codepoints@.contains(x) { let i = choose|i: int| 0 <= i < vec@.len() && *vec@[i] == x; assert(vals[i] == xi); assert(rhs); }
        if rhs {
            let i = choose|i: int| 0 <= i < done && #[trigger] vals[i] == xi; assert(codepoints@.contains(*vec@[i])); assert(*vec@[i] == x);
        }
    }
}''')],
           loops={1: Loop(ghost='it', invariants=[
               ('C15.gcv_seq', 'it.seq().len() == vec@.len() && forall|i: int| 0 <= i < vec@.len() ==> **#[trigger] it.seq()[i] as int == vals[i]'),
               ('C15.gcv_vals', 'vals.len() == vec@.len() && (forall|i: int, j: int| 0 <= i < j < vals.len() ==> vals[i] < vals[j]) && (forall|i: int| 0 <= i < vals.len() ==> 0 <= #[trigger] vals[i] <= 0x10FFFF)'),
               ('C15.gcv_wf', 'well_formed(out@)'),
               ('C15.gcv_done', 'done == it.index@'),
               ('C15.gcv_none', '(range is None <==> it.index@ == 0) && (it.index@ == 0 ==> out@.len() == 0)'),
               ('C15.gcv_pending1', 'range matches Some(r) ==> r.start.v() <= r.end.v()'),
               ('C15.gcv_pending2', 'range matches Some(r) ==> r.end.v() as int == vals[it.index@ - 1]'),
               ('C15.gcv_pending3', 'range matches Some(r) ==> forall|i: int| 0 <= i < out@.len() ==> hi(#[trigger] out@[i]) < r.start.v()'),
               ('C15.gcv_denotes', 'forall|x: int| #[trigger] have_set(out@, range, x) <==> seen_vals(vals, done, x)'),
           ], head='''let ghost out0 = out@;
let ghost range0 = range;
let ghost k = it.index@;
proof { assert(**cp as int == vals[k]); assert(forall|i: int| 0 <= i < k ==> vals[i] < vals[k]); }''',
           tail='''proof {
    done = k + 1;
    let c = vals[k];
    if out@ != out0 {
        let e = out@.last();
        assert(out@ =~= out0.push(e));
        lemma_well_formed_push(out0, e);
        assert forall|x: int| covered(out@, x) <==> (covered(out0, x) || covers(e, x)) by { lemma_covered_push(out0, e, x); }
        assert forall|i: int| 0 <= i < out@.len() implies hi(#[trigger] out@[i]) < c by {
            if i < out0.len() { assert(out@[i] == out0[i]); }
        }
    }
    assert forall|x: int| #[trigger] have_set(out@, range, x) <==> seen_vals(vals, k + 1, x) by {
        assert(have_set(out0, range0, x) <==> seen_vals(vals, k, x));
        if seen_vals(vals, k, x) { let i = choose|i: int| 0 <= i < k && #[trigger] vals[i] == x; assert(0 <= i < k + 1 && vals[i] == x); }
        if x == c { assert(0 <= k < k + 1 && vals[k] == x); }
        if seen_vals(vals, k + 1, x) {
            let i = choose|i: int| 0 <= i < k + 1 && #[trigger] vals[i] == x;
            if i < k { assert(seen_vals(vals, k, x)); } else { assert(x == c); }
        }
    }
}''',
           )}),
    ], header='use super::*;\nuse crate::spec::*;\nuse crate::ucd_parse::Codepoints::{Range, Single};\nuse crate::ucd_parse::{Codepoint, CodepointRange, Codepoints, vx_sorted_refs};\nuse crate::error::Error;\n')
    parsers = Module('ucd_parsers', 'precis-tools/src/ucd_parsers.rs', [
        StructFields(r'pub\s+struct\s+UnicodeData\b', keep=['codepoints', 'general_category', 'canonical_combining_class', 'bidi_class', 'decomposition']),
    ], header='use super::*;\nuse crate::ucd_parse;\n')
    NEXT = 'self.range.start.v()'
    unassigned = Impl(
        r'impl\s+UcdLineParser<ucd_parsers::UnicodeData>\s+for\s+UnassignedTableGen\b', header='impl UnassignedTableGen',
        extra='''
    // all code points below `next` are either covered by a processed row or by an entry of the table
    pub closed spec fn next(&self) -> int { self.range.start.v() as int }
    pub closed spec fn entries(&self) -> Seq<Codepoints> { self.vec@ }
    pub closed spec fn inv(&self) -> bool {
        &&& searchable(self.vec@)
        &&& self.range.end.v() <= self.range.start.v()
        &&& forall|i: int| 0 <= i < self.vec@.len() ==> hi(#[trigger] self.vec@[i]) < self.next()
    }
''',
        fns=[Fn('process_entry', ret='res',
                requires=[('REQ.unassigned_inv', 'old(self).inv()'),
                          ('REQ.row_ascending', 'old(self).next() <= lo(udata.codepoints) <= hi(udata.codepoints) <= 0x10FFFF')],
                ensures=[
                    ('C15.unassigned_inv', 'res is Ok ==> final(self).inv() && final(self).next() == hi(udata.codepoints) + 1'),
                    ('C15.unassigned_gap', 'res is Ok ==> forall|x: int| covered(final(self).vec@, x) <==> (covered(old(self).vec@, x) || old(self).next() <= x < lo(udata.codepoints))'),
                    ('C15.unassigned_err', 'res is Err ==> hi(udata.codepoints) == 0x10FFFF'),
                ],
                head='let ghost vec0 = self.vec@;\nlet ghost next0 = self.next();',
                inserts=[(r'Ok\(\(\)\)', 1, 'before', '''proof {
    if self.vec@ != vec0 {
        let e = self.vec@.last();
        assert(self.vec@ =~= vec0.push(e));
        assert forall|x: int| covered(self.vec@, x) <==> (covered(vec0, x) || covers(e, x)) by { lemma_covered_push(vec0, e, x); }
    }
}''')],
                )])
    ROWSET = 'Set::new(|x: u32| lo(udata.codepoints) <= x <= hi(udata.codepoints))'
    line_parser = Impl(r'pub\s+trait\s+UcdLineParser<U>', header='pub trait UcdLineParser<U>', fns=[Fn('process_entry')])
    virama = Impl(r'impl\s+UcdLineParser<ucd_parsers::UnicodeData>\s+for\s+ViramaTableGen\b', header='impl ViramaTableGen', fns=[
        Fn('process_entry', ret='res', requires=[('REQ.row_wf', 'lo(udata.codepoints) <= hi(udata.codepoints)')],
           ensures=[('C15.virama_row', 'res is Ok ==> forall|x: u32| final(self).set().contains(x) <==> (old(self).set().contains(x) || (udata.canonical_combining_class == 9 && lo(udata.codepoints) <= x <= hi(udata.codepoints)))'),
                    ('C15.virama_err', 'res is Err ==> udata.canonical_combining_class == 9'),
                    ],
           )])
    gctable = Impl(r'impl\s+UcdLineParser<ucd_parsers::UnicodeData>\s+for\s+UcdTableGen\b', header='impl UcdTableGen', fns=[
        Fn('process_entry', ret='res', requires=[('REQ.row_wf', 'lo(udata.codepoints) <= hi(udata.codepoints)')],
           ensures=[('C15.gc_row', 'res is Ok ==> forall|x: u32| final(self).set().contains(x) <==> (old(self).set().contains(x) || (old(self).key() == udata.general_category@ && lo(udata.codepoints) <= x <= hi(udata.codepoints)))'),
                    ('C15.gc_err', 'res is Err ==> old(self).key() == udata.general_category@'),
                    ('C15.gc_frame', 'final(self).key() == old(self).key()')],
           head='proof { crate::ucd_parse::string_facts(); }')])
    gen = Module('ucd_generator', 'precis-tools/src/generators/ucd_generator.rs', [
        Verbatim(r'pub\s+struct\s+UcdTableGen\b'),
        Text('impl UcdTableGen { pub closed spec fn set(&self) -> Set<u32> { self.cps@ } pub closed spec fn key(&self) -> Seq<char> { self.name@ } }'),
        Impl(r'impl\s+UcdTableGen\s*(?=\{)', header='impl UcdTableGen', fns=[
            Fn('new', ret='r', head='proof { crate::ucd_parse::string_facts(); crate::ucd_parse::axiom_string_from_str(name); }', ensures=[('C15.gc_new', 'r.set() == Set::<u32>::empty() && r.key() == name@')])]),
        gctable,
        Verbatim(r'const\s+CANONICAL_COMBINING_CLASS_VIRAMA\b'),
        Verbatim(r'pub\s+struct\s+ViramaTableGen\b'),
        Text('impl ViramaTableGen { pub closed spec fn set(&self) -> Set<u32> { self.cps@ } }'),
        Impl(r'impl\s+ViramaTableGen\s*(?=\{)', header='impl ViramaTableGen', fns=[
            Fn('new', ret='r', ensures=[('C15.virama_new', 'r.set() == Set::<u32>::empty()')])]),
        virama,
        Verbatim(r'pub\s+struct\s+WidthMappingTableGen\b'),
        Text('impl WidthMappingTableGen { pub closed spec fn rows(&self) -> Seq<(Codepoints, crate::ucd_parse::Codepoint)> { self.vec@ } }'),
        Impl(r'impl\s+WidthMappingTableGen\s*(?=\{)', header='impl WidthMappingTableGen', fns=[
            Fn('new', ret='r', ensures=[('C15.width_new', 'r.rows().len() == 0')])]),
        Impl(r'impl\s+UcdLineParser<ucd_parsers::UnicodeData>\s+for\s+WidthMappingTableGen\b', header='impl WidthMappingTableGen', fns=[
            Fn('process_entry', ret='res',
               # `err!(..)` expands to Err(Error::parse(format!(..))): W.err replaces the macro call by a wrapper returning an Err
               rewrites=[('W.err', r'err!\("[^"]*"\)', 'crate::error::vx_err()', 1)],
               ensures=[('C15.width_row', 'res is Ok ==> final(self).rows() == (if udata.decomposition.tag == Some(UnicodeDataDecompositionTag::Wide) || udata.decomposition.tag == Some(UnicodeDataDecompositionTag::Narrow) { old(self).rows().push((udata.codepoints, udata.decomposition.mapping[0])) } else { old(self).rows() })'),
                        ('C15.width_err', 'res is Err ==> udata.decomposition.len == 0 && final(self).rows() == old(self).rows()')]),
        ]),
        Verbatim(r'pub\s+struct\s+UnassignedTableGen\b'),
        unassigned,
        Impl(r'impl\s+UnassignedTableGen\s*(?=\{)', header='impl UnassignedTableGen', fns=[
            Fn('new', ret='r', ensures=[('C15.unassigned_new', 'r.inv() && r.next() == 0 && r.entries().len() == 0')])]),
    ], header='use super::*;\nuse crate::spec::*;\nuse crate::common;\nuse crate::ucd_parse;\nuse crate::ucd_parsers;\nuse crate::ucd_parse::Codepoints;\nuse crate::ucd_parse::UnicodeDataDecompositionTag;\nuse crate::error::Error;\nbroadcast use {crate::ucd_parse::axiom_string_eq};\n')
    err = Module('error', None, [Text('''
// MODEL of precis_tools::Error (message/line/path record built with format!): only its existence matters here
#[derive(Debug)]
pub struct Error {}
impl From<crate::ucd_parse::Error> for Error {
    #[verifier::external_body]
    fn from(error: crate::ucd_parse::Error) -> Self { unimplemented!() }
}
// W.err: `err!("..")` = Err(Error::parse(format!("..")))
#[verifier::external_body]
pub fn vx_err<T>() -> (r: Result<T, Error>) ensures r is Err { unimplemented!() }
''')], header='use super::*;\n')
    bidi = Module('bidi_class', 'precis-tools/src/generators/bidi_class.rs', [
        Verbatim(r'pub\s+struct\s+BidiClassGen\b'),
        Fn('add_range', head='proof { string_facts(); }', tail='proof { assert(vec@ =~= old(vec)@.push(vec@.last())); }', ensures=[('C15.bidi_add_range', 'exists|p: (Codepoints, String)| final(vec)@ == old(vec)@.push(p) && p.1@ == bidi@ && lo(p.0) == range.start.v() && hi(p.0) == range.end.v()')]),
        Impl(r'impl\s+BidiClassGen\s*(?=\{\s*(?:///[^\n]*\s*)*pub\s+fn\s+new\b)', header='impl BidiClassGen', fns=[
            Fn('new', ret='r', ensures=[('C15.bidi_new', 'r.rows().len() == 0')])]),
        Text('impl BidiClassGen { pub closed spec fn rows(&self) -> Seq<(Codepoints, String)> { self.vec@ } }'),
        Impl(r'impl\s+BidiClassGen\s*(?=\{\s*fn\s+generate_bidi_class_table)', header='impl BidiClassGen', fns=[
            Fn('compress_into_ranges', no_w=True,
               requires=[('REQ.rows_ascending', 'well_formed(keys(old(self).vec@))')],
               ensures=[
                   ('C15.bidi_searchable', 'well_formed(keys(final(self).vec@))'),
                   ('C15.bidi_denotes', 'forall|x: int, s: Seq<char>| assoc(final(self).vec@, x, s) <==> assoc(old(self).vec@, x, s)'),
               ],
               head='let ghost rows = self.vec@;\nlet ghost mut it_done: int = 0;',
               inserts=[(r'match cp \{', 1, 'before', '''let ghost out_m = out@;
let ghost range_m = range;
let ghost val_m = val;
proof {
    let c = rows[k].0;
    let cls = rows[k].1@;
    if out@.len() == out0.len() + 1 {
        let p = out@.last();
        assert(out@ =~= out0.push(p));
        lemma_keys_push(out0, p);
        assert forall|x: int, s: Seq<char>| assoc(out@, x, s) <==> (assoc(out0, x, s) || (covers(p.0, x) && p.1@ == s)) by { lemma_assoc_push(out0, p, x, s); }
        lemma_all_below_mono(out0, lo(p.0), lo(c));
        lemma_all_below_push(out0, p, lo(c));
    } else {
        assert(out@ =~= out0);
        if k > 0 { lemma_all_below_mono(out0, hi(rows[k - 1].0) + 1, lo(c)); }
    }
    assert(val is Some && val->Some_0@ == cls);
    assert(well_formed(keys(out@)));
    assert(all_below(out@, lo(c)));
    assert(range matches Some(r) ==> k > 0 && r.start.v() <= r.end.v() && r.end.v() as int == hi(rows[k - 1].0) && all_below(out@, r.start.v() as int));
    assert forall|x: int, s: Seq<char>| #[trigger] have(out@, range, val, x, s) <==> seen(rows, k, x, s) by {
        assert(have(out0, range0, val0, x, s) <==> seen(rows, k, x, s));
    }
}'''),
                        (r'self\.vec = out;', 1, 'before', '''proof {
    assert(it_done == rows.len());
    if out@.len() == out_l.len() + 1 {
        let p = out@.last();
        assert(out@ =~= out_l.push(p));
        lemma_keys_push(out_l, p);
        assert forall|x: int, s: Seq<char>| assoc(out@, x, s) <==> (assoc(out_l, x, s) || (covers(p.0, x) && p.1@ == s)) by { lemma_assoc_push(out_l, p, x, s); }
    } else {
        assert(out@ =~= out_l);
    }
    assert forall|x: int, s: Seq<char>| assoc(out@, x, s) <==> assoc(rows, x, s) by {
        assert(have(out_l, range_l, val_l, x, s) <==> seen(rows, rows.len() as int, x, s));
        assert(seen(rows, rows.len() as int, x, s) <==> assoc(rows, x, s));
    }
}''')],
               loops={1: Loop(ghost='it', invariants=[
                   ('C15.bidi_seq', 'it.seq().len() == rows.len() && (forall|i: int| 0 <= i < rows.len() ==> *#[trigger] it.seq()[i] == rows[i]) && rows == self.vec@ && well_formed(keys(rows))'),
                   ('C15.bidi_out_wf', 'well_formed(keys(out@))'),
                   ('C15.bidi_done', 'it_done == it.index@'),
                   ('C15.bidi_start', 'it.index@ == 0 ==> (val is None && range is None && out@.len() == 0)'),
                   ('C15.bidi_val', 'it.index@ > 0 ==> (val is Some && val->Some_0@ == rows[it.index@ - 1].1@)'),
                   ('C15.bidi_below', 'it.index@ > 0 ==> all_below(out@, hi(rows[it.index@ - 1].0) + 1)'),
                   ('C15.bidi_pending', 'range matches Some(r) ==> it.index@ > 0 && r.start.v() <= r.end.v() && r.end.v() as int == hi(rows[it.index@ - 1].0) && all_below(out@, r.start.v() as int)'),
                   ('C15.bidi_denotes_inv', 'forall|x: int, s: Seq<char>| #[trigger] have(out@, range, val, x, s) <==> seen(rows, it_done, x, s)'),
               ], head='''let ghost k = it.index@;
let ghost out0 = out@;
let ghost range0 = range;
let ghost val0 = val;
proof {
    string_facts();
    assert(*cp == rows[k].0 && *bidi == rows[k].1);
    assert(keys(rows)[k] == rows[k].0);
    assert(lo(rows[k].0) <= hi(rows[k].0));
    if k > 0 { assert(keys(rows)[k - 1] == rows[k - 1].0); assert(hi(rows[k - 1].0) < lo(rows[k].0)); }
}''',
               post='let ghost out_l = out@;\nlet ghost range_l = range;\nlet ghost val_l = val;',
               tail='''proof {
    it_done = k + 1;
    // from the state after the class-change block (out_m, range_m, class == bidi) to the invariant at k + 1
    let c = rows[k].0;
    let cls = rows[k].1@;
    if out@.len() == out_m.len() + 1 {
        let p = out@.last();
        assert(out@ =~= out_m.push(p));
        lemma_keys_push(out_m, p);
        assert forall|x: int, s: Seq<char>| assoc(out@, x, s) <==> (assoc(out_m, x, s) || (covers(p.0, x) && p.1@ == s)) by { lemma_assoc_push(out_m, p, x, s); }
        lemma_all_below_mono(out_m, lo(p.0), lo(c));
        lemma_all_below_push(out_m, p, lo(c));
    } else if out@.len() == out_m.len() + 2 {
        let p1 = out@[out@.len() - 2];
        let p2 = out@.last();
        let mid = out_m.push(p1);
        assert(out@ =~= mid.push(p2));
        lemma_keys_push(out_m, p1);
        lemma_all_below_mono(out_m, lo(p1.0), lo(c));
        lemma_all_below_push(out_m, p1, lo(c));
        lemma_keys_push(mid, p2);
        assert forall|x: int, s: Seq<char>| assoc(out@, x, s) <==> (assoc(out_m, x, s) || (covers(p1.0, x) && p1.1@ == s) || (covers(p2.0, x) && p2.1@ == s)) by {
            lemma_assoc_push(out_m, p1, x, s); lemma_assoc_push(mid, p2, x, s);
        }
        lemma_all_below_mono(mid, lo(c), hi(c) + 1);
        lemma_all_below_push(mid, p2, hi(c) + 1);
    } else {
        assert(out@ =~= out_m);
    }
    if out@.len() <= out_m.len() + 1 { lemma_all_below_mono(out@, lo(c), hi(c) + 1); }
    assert forall|x: int, s: Seq<char>| #[trigger] have(out@, range, val, x, s) <==> seen(rows, k + 1, x, s) by {
        assert(have(out_m, range_m, val_m, x, s) <==> seen(rows, k, x, s));
        if seen(rows, k, x, s) { let j = choose|j: int| 0 <= j < k && covers(#[trigger] rows[j].0, x) && rows[j].1@ == s; assert(0 <= j < k + 1 && covers(rows[j].0, x) && rows[j].1@ == s); }
        if covers(c, x) && cls == s { assert(0 <= k < k + 1 && covers(rows[k].0, x) && rows[k].1@ == s); }
        if seen(rows, k + 1, x, s) {
            let j = choose|j: int| 0 <= j < k + 1 && covers(#[trigger] rows[j].0, x) && rows[j].1@ == s;
            if j < k { assert(seen(rows, k, x, s)); } else { assert(covers(c, x) && cls == s); }
        }
    }
}''',
               )}),
        ]),
    ], header='use super::*;\nuse crate::spec::*;\nuse crate::ucd_parse::{CodepointRange, Codepoints, string_facts};\nbroadcast use {crate::ucd_parse::axiom_string_eq, crate::ucd_parse::axiom_string_from_str};\n')
    if True:
        from . import tools_parse
        model.items.append(Text(rd('tools_model2.rs')))
        spec.items.append(Text(rd('spec_tools_parse.rs'), tag='C15.spec_lemmas'))
        parsers = tools_parse.module(repo)
        gen.items += tools_parse.table_flavours()
        gen.header += 'use crate::ucd_parse::{Property, CoreProperty, Script};\nuse crate::ucd_parsers::{HangulSyllableType, DerivedJoiningType};\n'
    return [model, spec, err, common, parsers, gen, bidi]
