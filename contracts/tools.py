"""Contracts for precis-tools generators (C15): the in-memory algorithms between parsed rows and the
vector handed to the file writer."""
import os
from vlib.extract import Fn, Impl, Verbatim, Text, Module, Loop

HERE = os.path.dirname(__file__)


def rd(name):
    with open(os.path.join(HERE, name), encoding='utf-8') as f:
        return f.read()


ROOT_HEADER = '''// GENERATED on every run by /verif/vlib from /repo's working tree. Do not edit.
#![allow(unused_imports, unused_variables, unused_mut, dead_code, unused_assignments, non_snake_case, unreachable_code, unused_parens)]
use vstd::prelude::*;
use vstd::std_specs::iter::*;
use std::collections::HashSet;
'''


def modules(repo):
    model = Module('ucd_parse', None, [Text(rd('tools_model.rs'))], header='use super::*;\n')
    spec = Module('spec', None, [Text(rd('spec_tools.rs'), tag='C15.spec_lemmas')], header='use super::*;\nuse crate::ucd_parse::*;\n')
    entry = 'if r.start.v() == r.end.v() { Codepoints::Single(r.start) } else { Codepoints::Range(*r) }'
    common = Module('common', 'precis-tools/src/common.rs', [
        Fn('add_codepoints',
           ensures=[('C15.add_codepoints', 'final(vec)@ == old(vec)@.push(if range.start.v() == range.end.v() { Codepoints::Single(range.start) } else { Codepoints::Range(*range) })')]),
        Fn('add_range',
           ensures=[('C15.add_range', 'match range { Some(r) => final(out)@ == old(out)@.push(%s), None => final(out)@ == old(out)@ }' % entry)]),
        Fn('get_codepoints_vector', ret='res',
           requires=[('REQ.valid_cps', 'forall|x: u32| codepoints@.contains(x) ==> x <= 0x10FFFF')],
           ensures=[('C15.set_table_well_formed', 'well_formed(res@)'),
                    ('C15.set_table_denotes', 'forall|x: u32| covered(res@, x as int) <==> codepoints@.contains(x)')],
           rewrites=[('W.sorted_refs', r'let mut vec = Vec::new\(\);\s*codepoints\.iter\(\)\.for_each\(\|cp\| \{\s*vec\.push\(cp\);\s*\}\);\s*vec\.sort\(\);', 'let vec = vx_sorted_refs(codepoints);', 1)],
           inserts=[(r'let mut out = Vec::new\(\);', 1, 'before', 'let ghost vals: Seq<int> = Seq::new(vec@.len(), |i: int| *vec@[i] as int);\nlet ghost mut done: int = 0;'),
                    (r'add_range\(&range, &mut out\);', 2, 'before', 'let ghost out1 = out@;'),
                    (r'add_range\(&range, &mut out\);', 2, 'after', '''proof {
    assert(done == vec@.len());
    if out@ != out1 {
        let e = out@.last();
        assert(out@ =~= out1.push(e));
        lemma_well_formed_push(out1, e);
        assert forall|x: int| covered(out@, x) <==> (covered(out1, x) || covers(e, x)) by { lemma_covered_push(out1, e, x); }
    }
    assert forall|x: u32| covered(out@, x as int) <==> codepoints@.contains(x) by {
        let xi = x as int;
        let rhs = exists|i: int| 0 <= i < done && #[trigger] vals[i] == xi;
        assert((covered(out1, xi) || (range matches Some(r) && r.start.v() <= xi <= r.end.v())) <==> rhs);
        match range {
            Some(r) => {
                let e = out@.last();
                assert(out@ =~= out1.push(e));
                lemma_covered_push(out1, e, xi);
                assert(covers(e, xi) <==> r.start.v() <= xi <= r.end.v());
            },
            None => { assert(out@ =~= out1); },
        }
        assert(covered(out@, xi) <==> rhs);
        if codepoints@.contains(x) { let i = choose|i: int| 0 <= i < vec@.len() && *vec@[i] == x; assert(vals[i] == xi); assert(rhs); }
        if rhs {
            let i = choose|i: int| 0 <= i < done && #[trigger] vals[i] == xi; assert(codepoints@.contains(*vec@[i])); assert(*vec@[i] == x);
        }
    }
}''')],
           loops={1: Loop(ghost='it', invariants=[
               ('C15.gcv_seq', 'it.seq().len() == vec@.len() && forall|i: int| 0 <= i < vec@.len() ==> **#[trigger] it.seq()[i] as int == vals[i]'),
               ('C15.gcv_vals', 'vals.len() == vec@.len() && (forall|i: int, j: int| 0 <= i < j < vals.len() ==> vals[i] < vals[j]) && (forall|i: int| 0 <= i < vals.len() ==> 0 <= #[trigger] vals[i] <= 0x10FFFF)'),
               ('C15.gcv_wf', 'well_formed(out@)'),
               ('C15.gcv_done', 'done == it.index@'),
               ('C15.gcv_none', '(range is None <==> it.index@ == 0) && (it.index@ == 0 ==> out@.len() == 0)'),
               ('C15.gcv_pending1', 'range matches Some(r) ==> r.start.v() <= r.end.v()'),
               ('C15.gcv_pending2', 'range matches Some(r) ==> r.end.v() as int == vals[it.index@ - 1]'),
               ('C15.gcv_pending3', 'range matches Some(r) ==> forall|i: int| 0 <= i < out@.len() ==> hi(#[trigger] out@[i]) < r.start.v()'),
               ('C15.gcv_denotes', 'forall|x: int| (covered(out@, x) || (range matches Some(r) && r.start.v() <= x <= r.end.v())) <==> (exists|i: int| 0 <= i < it.index@ && #[trigger] vals[i] == x)'),
           ], head='''let ghost out0 = out@;
let ghost range0 = range;
let ghost k = it.index@;
proof { assert(**cp as int == vals[k]); assert(forall|i: int| 0 <= i < k ==> vals[i] < vals[k]); }''',
           tail='''proof {
    done = k + 1;
    let c = vals[k];
    if out@ != out0 {
        let e = out@.last();
        assert(out@ =~= out0.push(e));
        lemma_well_formed_push(out0, e);
        assert forall|x: int| covered(out@, x) <==> (covered(out0, x) || covers(e, x)) by { lemma_covered_push(out0, e, x); }
        assert forall|i: int| 0 <= i < out@.len() implies hi(#[trigger] out@[i]) < c by {
            if i < out0.len() { assert(out@[i] == out0[i]); }
        }
    }
    assert forall|x: int| (covered(out@, x) || (range matches Some(r) && r.start.v() <= x <= r.end.v())) <==> (exists|i: int| 0 <= i < k + 1 && #[trigger] vals[i] == x) by {
        let lhs0 = covered(out0, x) || (range0 matches Some(r) && r.start.v() <= x <= r.end.v());
        let rhs0 = exists|i: int| 0 <= i < k && #[trigger] vals[i] == x;
        assert(lhs0 <==> rhs0);
        if rhs0 { let i = choose|i: int| 0 <= i < k && #[trigger] vals[i] == x; assert(0 <= i < k + 1 && vals[i] == x); }
        if x == c { assert(0 <= k < k + 1 && vals[k] == x); }
        if exists|i: int| 0 <= i < k + 1 && #[trigger] vals[i] == x {
            let i = choose|i: int| 0 <= i < k + 1 && #[trigger] vals[i] == x;
            if i < k { assert(rhs0); } else { assert(x == c); }
        }
    }
}''',
           )}),
    ], header='use super::*;\nuse crate::spec::*;\nuse crate::ucd_parse::Codepoints::{Range, Single};\nuse crate::ucd_parse::{Codepoint, CodepointRange, Codepoints, vx_sorted_refs};\n')
    return [model, spec, common]
