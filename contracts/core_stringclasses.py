"""precis-core/src/stringclasses.rs"""
from vlib.extract import Fn, Impl, Verbatim, Text, Module, Loop
from .lib_common import BROADCAST, FACTS

HEADER = '''use super::*;
use crate::vx::*;
use crate::spec::*;
use crate::precis_core::common;
use crate::precis_core::context;
use crate::precis_core::context::{vx_call_rule, rule_id};
use crate::precis_core::DerivedPropertyValue;
use crate::precis_core::error::{CodepointInfo, Error, UnexpectedError};
''' + BROADCAST

SPEC = '''
// acceptance of a label by a class whose per-character value is vf(c): the result of the first
// position that is not acceptable, Ok if there is none
pub open spec fn allows_from(vf: spec_fn(char) -> DerivedPropertyValue, l: Seq<char>, i: int) -> Result<(), Error>
    decreases l.len() - i
{
    if i < 0 || i >= l.len() { Ok(()) }
    else { match pos_result(vf(l[i]), l, i) { Ok(()) => allows_from(vf, l, i + 1), Err(e) => Err(e) } }
}
pub open spec fn allows_spec(vf: spec_fn(char) -> DerivedPropertyValue, l: Seq<char>) -> Result<(), Error> { allows_from(vf, l, 0) }

// accepted iff every position is acceptable; a rejection is the error of the FIRST unacceptable position
pub proof fn lemma_allows_from(vf: spec_fn(char) -> DerivedPropertyValue, l: Seq<char>, i: int)
    requires 0 <= i <= l.len()
    ensures
        allows_from(vf, l, i) is Ok <==> (forall|j: int| i <= j < l.len() ==> (#[trigger] pos_result(vf(l[j]), l, j)) is Ok),
        allows_from(vf, l, i) is Err ==> exists|k: int| i <= k < l.len()
            && (forall|j: int| i <= j < k ==> (#[trigger] pos_result(vf(l[j]), l, j)) is Ok)
            && pos_result(vf(l[k]), l, k) == allows_from(vf, l, i),
    decreases l.len() - i
{
    if i < l.len() {
        lemma_allows_from(vf, l, i + 1);
        if pos_result(vf(l[i]), l, i) is Ok {
            if allows_from(vf, l, i) is Err {
                let k = choose|k: int| i + 1 <= k < l.len()
                    && (forall|j: int| i + 1 <= j < k ==> (#[trigger] pos_result(vf(l[j]), l, j)) is Ok)
                    && pos_result(vf(l[k]), l, k) == allows_from(vf, l, i + 1);
                assert(forall|j: int| i <= j < k ==> (#[trigger] pos_result(vf(l[j]), l, j)) is Ok);
            }
        } else {
            assert(pos_result(vf(l[i]), l, i) == allows_from(vf, l, i));
        }
    }
}

// an accepted label has no code point that is DISALLOWED / UNASSIGNED / class-disallowed
pub proof fn lemma_allowed_no_bad(vf: spec_fn(char) -> DerivedPropertyValue, l: Seq<char>)
    requires allows_spec(vf, l) is Ok
    ensures forall|j: int| 0 <= j < l.len() ==> !val_bad(vf(#[trigger] l[j]))
{
    lemma_allows_from(vf, l, 0);
    assert forall|j: int| 0 <= j < l.len() implies !val_bad(vf(#[trigger] l[j])) by {
        assert(pos_result(vf(l[j]), l, j) is Ok);
    }
}

pub open spec fn spec_on<T: SpecificDerivedPropertyValue + ?Sized>(obj: &T) -> DerivedPropertyValue;
'''


def module(repo):
    on_ens = lambda nm: [('C14.%s' % nm, 'r == self.spec_class_value()')]
    on_fns = ['on_spaces', 'on_symbols', 'on_punctuation', 'on_has_compat', 'on_other_letter_digits']
    return Module('stringclasses', 'precis-core/src/stringclasses.rs', [
        Impl(r'pub\s+trait\s+SpecificDerivedPropertyValue\b',
             [Fn(n, ret='r', ensures=on_ens(n)) for n in on_fns],
             extra='    spec fn spec_class_value(&self) -> DerivedPropertyValue;\n'),
        Fn('get_derived_property_value', ret='r',
           ensures=[('C14.decision_list',
                     'r == rfc8264_derived_with(cp, obj.spec_class_value())')]),
        Fn('allowed_by_context_rule', ret='r',
           rewrites=[('W.call_rule', r'\brule\(([^()]*)\)', r'vx_call_rule(rule, \1)', 1)],
           ensures=[('C02.ctx_dispatch',
                     '(0 <= offset < label@.len() && label@[offset as int] as u32 == cp && val_ctx(val)) ==> r == pos_result(val, label@, offset as int)')]),
        Text(SPEC.replace("pub open spec fn spec_on<T: SpecificDerivedPropertyValue + ?Sized>(obj: &T) -> DerivedPropertyValue;\n", '')),
        Impl(r'pub\s+trait\s+StringClass\b', [
            Fn('get_value_from_char', ret='r', ensures=[('C02+C14.value', 'r == self.value(c)')]),
            Fn('get_value_from_codepoint', ret='r'),
            Fn('allows', ret='r',
               ensures=[('C02.allows', 'r == allows_spec(|c: char| self.value(c), as_ref_view(&label))')],
               head='let ghost l = as_ref_view(&label);',
               loops={1: Loop(
                   invariants=[
                       ('C02.allows_iter', 'IteratorSpec::decrease(&vx_it) is Some'),
                       ('C02.allows_j', '0 <= j <= l.len() && l == as_ref_view(&label)'),
                       ('C02.allows_rem', 'IteratorSpec::remaining(&vx_it) == enumerate_seq(l).skip(j)'),
                       ('C02.allows_prefix', 'allows_spec(|c: char| self.value(c), l) == allows_from(|c: char| self.value(c), l, j)'),
                   ],
                   ensures=[('C02.allows_done', 'IteratorSpec::remaining(&vx_it).len() == 0')],
                   decreases='IteratorSpec::decrease(&vx_it).unwrap()',
                   desugar=True,
                   pre='let ghost mut j: int = 0;',
                   head='''proof {
    assert(enumerate_seq(l).skip(j).len() > 0);
    assert(enumerate_seq(l).skip(j)[0] == enumerate_seq(l)[j]);
    assert(offset == j as usize && c == l[j]);
    assert(IteratorSpec::remaining(&vx_it) =~= enumerate_seq(l).skip(j + 1));
    j = j + 1;
}''',
               )}),
        ], extra='    spec fn value(&self, c: char) -> DerivedPropertyValue;\n'),
        Verbatim(r'pub\s+struct\s+IdentifierClass\b'),
        Impl(r'impl\s+SpecificDerivedPropertyValue\s+for\s+IdentifierClass\b',
             [Fn(n, ret='r') for n in ['on_has_compat', 'on_other_letter_digits', 'on_spaces', 'on_symbols', 'on_punctuation']],
             extra='    open spec fn spec_class_value(&self) -> DerivedPropertyValue { DerivedPropertyValue::SpecClassDis }\n'),
        Impl(r'impl\s+StringClass\s+for\s+IdentifierClass\b', [
            Fn('get_value_from_char', ret='r'),
            Fn('get_value_from_codepoint', ret='r', ensures=[('C14.id_cp', 'r == rfc8264_derived(cp, true)')]),
        ], extra='    open spec fn value(&self, c: char) -> DerivedPropertyValue { rfc8264_derived(c as u32, true) }\n'),
        Verbatim(r'pub\s+struct\s+FreeformClass\b'),
        Impl(r'impl\s+SpecificDerivedPropertyValue\s+for\s+FreeformClass\b',
             [Fn(n, ret='r') for n in ['on_has_compat', 'on_other_letter_digits', 'on_spaces', 'on_symbols', 'on_punctuation']],
             extra='    open spec fn spec_class_value(&self) -> DerivedPropertyValue { DerivedPropertyValue::SpecClassPval }\n'),
        Impl(r'impl\s+StringClass\s+for\s+FreeformClass\b', [
            Fn('get_value_from_char', ret='r'),
            Fn('get_value_from_codepoint', ret='r', ensures=[('C14.ff_cp', 'r == rfc8264_derived(cp, false)')]),
        ], extra='    open spec fn value(&self, c: char) -> DerivedPropertyValue { rfc8264_derived(c as u32, false) }\n'),
    ], header=HEADER)
