"""precis-core/src/error.rs and the generated DerivedPropertyValue enum."""
import re
from vlib.extract import Fn, Impl, Verbatim, Text, Module, Loop, eval_writeln_literals, Chunk
from vlib.rustscan import AnchorLost


def derived_property_enum(repo):
    rel = 'precis-tools/src/generators/derived_property.rs'
    txt = eval_writeln_literals(repo, rel, 'generate_code', r'impl\s+CodeGen\s+for\s+DerivedPropertyValueGen\b')
    mo = re.search(r'#\[derive\([^\n]*\)\]\s*\npub enum DerivedPropertyValue \{.*?\n\}', txt, re.S)
    if not mo:
        raise AnchorLost('DerivedPropertyValue enum not found in generator output literals')
    body = '\n'.join(l for l in mo.group(0).split('\n') if not l.strip().startswith('///'))
    return Text('// evaluated from the writeln! literals of %s\n%s\n' % (rel, body))


def module(repo):
    return Module('error', 'precis-core/src/error.rs', [
        Verbatim(r'pub\s+enum\s+Error\b'),
        Verbatim(r'pub\s+struct\s+CodepointInfo\b'),
        Impl(r'impl\s+CodepointInfo\b', [
            Fn('new', ret='r', ensures=[('C02.cpinfo_new', 'r.cp == cp && r.position == position && r.property == property')]),
        ]),
        Verbatim(r'pub\s+enum\s+UnexpectedError\b'),
    ], header='use super::*;\nuse crate::precis_core::DerivedPropertyValue;\n')
