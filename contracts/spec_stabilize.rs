// SPEC (ghost only) for precis_core::profile::stabilize (RFC 8264 section 7): relational in the caller's
// rule function, so that it covers total, failing, converging, cycling and diverging functions alike.


// "f applied to a string with content x may return Ok(y)" / "... may return Err(e)"
pub open spec fn f_ok<F: for<'b> Fn(&'b str) -> Result<Cow<'b, str>, Error>>(f: F, x: Seq<char>, y: Seq<char>) -> bool {
    exists|xs: &str, r: Result<Cow<str>, Error>| xs@ == x && call_ensures(f, (xs,), r) && r is Ok && r->Ok_0@ == y
}
pub open spec fn f_err<F: for<'b> Fn(&'b str) -> Result<Cow<'b, str>, Error>>(f: F, x: Seq<char>, e: Error) -> bool {
    exists|xs: &str, r: Result<Cow<str>, Error>| xs@ == x && call_ensures(f, (xs,), r) && r == Err::<Cow<str>, Error>(e)
}

// b is reached from a by exactly n applications of f, each of which changed the string
pub open spec fn chain<F: for<'b> Fn(&'b str) -> Result<Cow<'b, str>, Error>>(f: F, a: Seq<char>, b: Seq<char>, n: nat) -> bool
    decreases n
{
    if n == 0 { a == b } else { exists|m: Seq<char>| chain(f, a, m, (n - 1) as nat) && #[trigger] f_ok(f, m, b) && m != b }
}

pub proof fn chain_step<F: for<'b> Fn(&'b str) -> Result<Cow<'b, str>, Error>>(f: F, a: Seq<char>, m: Seq<char>, b: Seq<char>, n: nat)
    requires chain(f, a, m, n), f_ok(f, m, b), m != b
    ensures chain(f, a, b, (n + 1) as nat)
{
    let n1: nat = (n + 1) as nat;
    assert((n1 - 1) as nat == n);
}

// ---- deterministic reading, used by the profiles: when every call of f behaves like the spec function
// `st` (on string contents), stabilize computes `stab(st, s, 3)`: apply, stop at the first unchanged
// result, fail with f's error, reject with Invalid when the 1 + 3 applications all changed the string.
pub open spec fn res_view(r: Result<Cow<str>, Error>) -> Result<Seq<char>, Error> {
    match r { Ok(x) => Ok(x@), Err(e) => Err(e) }
}
pub open spec fn refines<F: for<'b> Fn(&'b str) -> Result<Cow<'b, str>, Error>>(f: F, st: spec_fn(Seq<char>) -> Result<Seq<char>, Error>) -> bool {
    forall|xs: &str, r: Result<Cow<str>, Error>| #[trigger] call_ensures(f, (xs,), r) ==> res_view(r) == st(xs@)
}
pub open spec fn stab(st: spec_fn(Seq<char>) -> Result<Seq<char>, Error>, s: Seq<char>, fuel: nat) -> Result<Seq<char>, Error>
    decreases fuel
{
    match st(s) {
        Err(e) => Err(e),
        Ok(y) => if y == s { Ok(s) } else if fuel == 0 { Err(Error::Invalid) } else { stab(st, y, (fuel - 1) as nat) },
    }
}
