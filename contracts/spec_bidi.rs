// SPEC (ghost only): the RFC 5893 section 2 "Bidi rule" over sequences of bidirectional classes.
pub open spec fn class_seq(s: Seq<char>) -> Seq<BidiClass> { s.map_values(|c: char| bidi_of(c)) }

pub open spec fn rtl_allowed(b: BidiClass) -> bool {
    b == BidiClass::R || b == BidiClass::AL || b == BidiClass::AN || b == BidiClass::EN || b == BidiClass::ES
    || b == BidiClass::CS || b == BidiClass::ET || b == BidiClass::ON || b == BidiClass::BN || b == BidiClass::NSM
}
pub open spec fn ltr_allowed(b: BidiClass) -> bool {
    b == BidiClass::L || b == BidiClass::EN || b == BidiClass::ES || b == BidiClass::CS || b == BidiClass::ET
    || b == BidiClass::ON || b == BidiClass::BN || b == BidiClass::NSM
}
pub open spec fn rtl_end(b: BidiClass) -> bool {
    b == BidiClass::R || b == BidiClass::AL || b == BidiClass::EN || b == BidiClass::AN
}
pub open spec fn ltr_end(b: BidiClass) -> bool { b == BidiClass::L || b == BidiClass::EN }

// index of the last class that is not NSM ("the end of the label ... followed by zero or more NSM"), -1 if none
pub open spec fn last_non_nsm(cs: Seq<BidiClass>) -> int
    decreases cs.len()
{
    if cs.len() == 0 { -1 } else if cs.last() != BidiClass::NSM { cs.len() - 1 } else { last_non_nsm(cs.drop_last()) }
}
pub open spec fn has_class(cs: Seq<BidiClass>, b: BidiClass) -> bool { exists|i: int| 0 <= i < cs.len() && cs[i] == b }

// the six conditions, for a non-empty label
pub open spec fn rfc5893(cs: Seq<BidiClass>) -> bool {
    cs.len() > 0 && (
        // 1 (RTL label), 2, 3, 4
        ((cs[0] == BidiClass::R || cs[0] == BidiClass::AL)
            && (forall|i: int| 0 <= i < cs.len() ==> rtl_allowed(#[trigger] cs[i]))
            && last_non_nsm(cs) >= 0 && rtl_end(cs[last_non_nsm(cs)])
            && !(has_class(cs, BidiClass::EN) && has_class(cs, BidiClass::AN)))
        // 1 (LTR label), 5, 6
        || (cs[0] == BidiClass::L
            && (forall|i: int| 0 <= i < cs.len() ==> ltr_allowed(#[trigger] cs[i]))
            && last_non_nsm(cs) >= 0 && ltr_end(cs[last_non_nsm(cs)]))
    )
}

// restriction built into the implementation (finding F5): NSM characters only at the very end
pub open spec fn nsm_trailing(cs: Seq<BidiClass>) -> bool {
    forall|i: int, j: int| #![trigger cs[i], cs[j]] 0 <= i < j < cs.len() && cs[i] == BidiClass::NSM ==> cs[j] == BidiClass::NSM
}
pub open spec fn bidi_impl_lang(cs: Seq<BidiClass>) -> bool { rfc5893(cs) && nsm_trailing(cs) }
pub open spec fn bidi_rule_impl(s: Seq<char>) -> bool { s.len() == 0 || bidi_impl_lang(class_seq(s)) }

pub proof fn lemma_lnn_bounds(cs: Seq<BidiClass>)
    ensures
        -1 <= last_non_nsm(cs) < cs.len(),
        last_non_nsm(cs) >= 0 ==> cs[last_non_nsm(cs)] != BidiClass::NSM,
        forall|k: int| last_non_nsm(cs) < k < cs.len() ==> cs[k] == BidiClass::NSM,
        (exists|k: int| 0 <= k < cs.len() && cs[k] != BidiClass::NSM) ==> last_non_nsm(cs) >= 0,
    decreases cs.len()
{
    if cs.len() > 0 {
        lemma_lnn_bounds(cs.drop_last());
        if cs.last() == BidiClass::NSM {
            assert forall|k: int| last_non_nsm(cs) < k < cs.len() implies cs[k] == BidiClass::NSM by {
                if k < cs.len() - 1 { assert(cs.drop_last()[k] == cs[k]); }
            }
            if exists|k: int| 0 <= k < cs.len() && cs[k] != BidiClass::NSM {
                let k = choose|k: int| 0 <= k < cs.len() && cs[k] != BidiClass::NSM;
                assert(cs.drop_last()[k] == cs[k]);
            }
        }
    }
}

// if everything from position j on is NSM, the last non-NSM class is the one of the prefix
pub proof fn lemma_lnn_trailing(cs: Seq<BidiClass>, j: int)
    requires 0 <= j <= cs.len(), forall|k: int| j <= k < cs.len() ==> cs[k] == BidiClass::NSM
    ensures last_non_nsm(cs) == last_non_nsm(cs.take(j))
    decreases cs.len() - j
{
    if j == cs.len() {
        assert(cs.take(j) =~= cs);
    } else {
        assert(cs.last() == BidiClass::NSM);
        let d = cs.drop_last();
        assert forall|k: int| j <= k < d.len() implies d[k] == BidiClass::NSM by { assert(d[k] == cs[k]); }
        lemma_lnn_trailing(d, j);
        assert(d.take(j) =~= cs.take(j));
    }
}

pub proof fn lemma_lnn_push(p: Seq<BidiClass>, c: BidiClass)
    ensures last_non_nsm(p.push(c)) == (if c != BidiClass::NSM { p.len() as int } else { last_non_nsm(p) })
{
    assert(p.push(c).drop_last() =~= p);
}

