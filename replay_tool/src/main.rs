// Witness search / replay / exhaustive per-code-point evaluation on the REAL, natively compiled crates.
// Never a decider for "holds": a found failing input is a definitive violation; finding nothing proves nothing
// (except the `exhaustive` sub-commands, which enumerate a complete finite domain and are labelled as such).
//
//   verif_replay search <PID> <seed> <budget>      -> one JSON line {"found":bool, "input":..., "detail":...}
//   verif_replay replay <PID> <input-json-string>  -> re-runs the executable clause on one input, exit 1 if it fails
//   verif_replay exhaustive <name>                 -> complete finite-domain evaluation (has_compat, class relation, ...)
#![allow(non_snake_case, dead_code)]
use precis_core::context;
use precis_core::profile::{stabilize, PrecisFastInvocation, Profile, Rules};
use precis_core::{CodepointInfo, DerivedPropertyValue as V, Error, FreeformClass, IdentifierClass, StringClass, UnexpectedError};
use precis_profiles::{Nickname, OpaqueString, UsernameCaseMapped, UsernameCasePreserved};
use std::borrow::Cow;
use std::panic::{catch_unwind, AssertUnwindSafe};
use unicode_normalization::UnicodeNormalization;

mod gen15;
mod oracle_core {
    include!("oracle_core.rs");
}
mod oracle_profiles {
    include!("oracle_profiles.rs");
}
use oracle_core::*;
use oracle_profiles::*;

// ------------------------------------------------------------------------------------------------ corpus
const ALPHABET: &[char] = &[
    'a', 'A', 'l', '1', ' ', '-', '\u{7f}',
    '\u{e9}', '\u{c9}', '\u{a0}', '\u{b7}', '\u{b2}', '\u{a8}', '\u{301}', '\u{3a3}', '\u{3c2}', '\u{3b1}', '\u{375}', '\u{387}', '\u{3f9}',
    '\u{5d0}', '\u{5b0}', '\u{5f3}', '\u{627}', '\u{644}', '\u{64e}', '\u{661}', '\u{6f1}', '\u{1c5}', '\u{130}', '\u{140}',
    '\u{1680}', '\u{2003}', '\u{200a}', '\u{200c}', '\u{200d}', '\u{94d}', '\u{915}', '\u{3000}', '\u{ff21}', '\u{ff76}', '\u{ff9e}', '\u{ffe0}',
    '\u{30fb}', '\u{30a2}', '\u{4e2d}', '\u{1f88}', '\u{212b}', '\u{13a0}', '\u{a9c0}', '\u{2163}', '\u{221e}',
    '\u{3131}', '\u{ffa1}', '\u{1100}', '\u{3c3}', 'J', '\u{30c}', 'L',
    // supplementary code points whose low 16 bits equal a mapped / space / contextual BMP code point
    '\u{1ff21}', '\u{23000}', '\u{1ff76}', '\u{100a0}', '\u{1200a}', '\u{100b7}', '\u{1200d}',
    '\u{1f600}', '\u{10900}', '\u{1e922}', '\u{e0001}', '\u{10ffff}',
];

struct Rng(u64);
impl Rng {
    fn next(&mut self) -> u64 {
        self.0 ^= self.0 << 13;
        self.0 ^= self.0 >> 7;
        self.0 ^= self.0 << 17;
        self.0
    }
    fn below(&mut self, n: usize) -> usize { (self.next() % (n as u64)) as usize }
}

fn corpus(seed: u64, budget: usize) -> Vec<String> {
    let mut v: Vec<String> = vec![String::new()];
    for &a in ALPHABET { v.push(a.to_string()); }
    for &a in ALPHABET { for &b in ALPHABET { v.push([a, b].iter().collect()); } }
    let mut rng = Rng(seed.wrapping_mul(0x9E3779B97F4A7C15) | 1);
    // structured triples / quads around spaces, cased letters, contextual characters
    let focus = [' ', '\u{a0}', '\u{200a}', 'a', 'A', '\u{e9}', '\u{4e2d}', '\u{1f600}', '\u{5d0}', '\u{5b0}', '\u{661}', '\u{6f1}', '\u{200d}', '\u{94d}', '\u{1c5}', '\u{3a3}'];
    for &a in &focus { for &b in &focus { for &c in &focus { v.push([a, b, c].iter().collect()); } } }
    for &a in &[' ', 'a', '\u{e9}', '\u{a0}'] { for &b in &[' ', 'a', '\u{a0}', '\u{1f600}'] { for &c in &[' ', 'b', '\u{200a}'] { for &d in &[' ', 'c', '\u{4e2d}'] { for &e in &[' ', '\u{a0}', 'd'] {
        v.push([a, b, c, d, e].iter().collect());
    } } } } }
    // every contextual code point between every pair of neighbours that some RFC 5892 rule looks at
    let ctx = ['\u{b7}', '\u{200c}', '\u{200d}', '\u{375}', '\u{5f3}', '\u{5f4}', '\u{30fb}', '\u{661}', '\u{6f1}'];
    let nb = ['l', 'L', 'a', '\u{94d}', '\u{a9c0}', '\u{93c}', '\u{3b1}', '\u{5d0}', '\u{30a2}', '\u{3042}', '\u{4e2d}', '\u{1100}', '\u{ac00}', '\u{1720}',
              '\u{644}', '\u{627}', '\u{64e}', '\u{5bf}', '\u{a872}', '\u{629}', '\u{661}', '\u{6f1}'];
    for &c in &ctx { for &a in &nb { v.push([a, c].iter().collect()); v.push([c, a].iter().collect()); for &b in &nb { v.push([a, c, b].iter().collect()); } } }
    for &c in &ctx { for &a in &nb { for &t in &['\u{64e}', '\u{5bf}', '\u{93c}'] { for &b in &nb { v.push([a, t, c, t, b].iter().collect()); v.push([a, '\u{94d}', t, c, b].iter().collect()); } } } }
    for &c in &ctx { for &d in &ctx { for &a in &['l', '\u{94d}', '\u{3b1}'] { v.push([a, c, a, d, a].iter().collect()); v.push([a, c, a, d].iter().collect()); } } }
    // two mapped characters separated by runs of unmapped ones (width-mappable, cased, non-ASCII spaces), 1- to 4-byte runs
    for &m1 in &['\u{ff01}', '\u{ff76}', 'A', '\u{a0}', '\u{3000}'] { for &m2 in &['\u{ff0e}', '\u{ff9e}', 'B', '\u{2003}', '\u{130}'] {
        for run in ["abc", "\u{e9}", "\u{4e2d}\u{672c}", "x\u{1f600}y", ""] { for tail in ["", "de", "\u{e9}"] {
            v.push(format!("{}{}{}{}{}", run, m1, run, m2, tail)); v.push(format!("{}{}{}{}{}", m1, run, m2, run, tail)); } } } }
    // long runs of combining marks on one base (more than 30 non-starters: stream-safe / buffer limits of normalisers)
    for base in ['q', 'a', '\u{5d0}'] { for mark in ['\u{307}', '\u{300}', '\u{5b0}'] { for n in [29usize, 30, 31, 32, 40] {
        let mut t = String::new(); t.push(base); for _ in 0..n { t.push(mark); } v.push(t); } } }
    while v.len() < budget {
        let n = 3 + rng.below(6);
        let s: String = (0..n).map(|_| ALPHABET[rng.below(ALPHABET.len())]).collect();
        v.push(s);
    }
    v
}

fn esc(s: &str) -> String {
    let mut o = String::from("\"");
    for c in s.chars() {
        if c.is_ascii_graphic() && c != '"' && c != '\\' { o.push(c); } else { o.push_str(&format!("\\u{{{:x}}}", c as u32)); }
    }
    o.push('"');
    o
}
fn json_str(s: &str) -> String {
    let mut o = String::from("\"");
    for c in s.chars() {
        match c {
            '"' => o.push_str("\\\""),
            '\\' => o.push_str("\\\\"),
            c if (c as u32) < 0x20 => o.push_str(&format!("\\u{:04x}", c as u32)),
            c => o.push(c),
        }
    }
    o.push('"');
    o
}

type R = Result<String, Error>;
fn own(r: Result<Cow<str>, Error>) -> R { r.map(|c| c.into_owned()) }
fn show(r: &R) -> String { match r { Ok(s) => format!("Ok({})", esc(s)), Err(e) => format!("Err({:?})", e) } }

// ------------------------------------------------------------------------------------------------ references
fn ref_lower(s: &str) -> String { s.chars().flat_map(|c| c.to_lowercase()).collect() }
fn ref_width(s: &str) -> String { s.chars().map(|c| match o_width(c as u32) { Some(d) => char::from_u32(d).unwrap(), None => c }).collect() }
fn ref_map_sp(s: &str) -> String { s.chars().map(|c| if c != ' ' && o_zs(c as u32) { ' ' } else { c }).collect() }
fn ref_collapse(s: &str) -> String {
    let mut out = String::new();
    let mut pending = false;
    let mut started = false;
    for c in s.chars() {
        if o_zs(c as u32) { pending = started; } else { if pending { out.push(' '); } out.push(c); pending = false; started = true; }
    }
    out
}
fn ref_nfc(s: &str) -> String { s.nfc().collect() }
fn ref_nfkc(s: &str) -> String { s.nfkc().collect() }
fn non_empty(s: String) -> R { if s.is_empty() { Err(Error::Invalid) } else { Ok(s) } }

fn bidi_idx(c: char) -> u8 { o_bidi(c as u32) }
fn bname(c: char) -> &'static str { O_BIDI_NAMES[bidi_idx(c) as usize] }
fn rfc5893(cs: &[&str]) -> bool {
    if cs.is_empty() { return true; }
    let rtl_allowed = |b: &str| matches!(b, "R" | "AL" | "AN" | "EN" | "ES" | "CS" | "ET" | "ON" | "BN" | "NSM");
    let ltr_allowed = |b: &str| matches!(b, "L" | "EN" | "ES" | "CS" | "ET" | "ON" | "BN" | "NSM");
    let last = cs.iter().rev().find(|b| **b != "NSM");
    match cs[0] {
        "R" | "AL" => cs.iter().all(|b| rtl_allowed(b)) && matches!(last, Some(&"R") | Some(&"AL") | Some(&"EN") | Some(&"AN"))
            && !(cs.contains(&"EN") && cs.contains(&"AN")),
        "L" => cs.iter().all(|b| ltr_allowed(b)) && matches!(last, Some(&"L") | Some(&"EN")),
        _ => false,
    }
}
fn nsm_trailing(cs: &[&str]) -> bool {
    match cs.iter().position(|b| *b == "NSM") { None => true, Some(i) => cs[i..].iter().all(|b| *b == "NSM") }
}
fn ref_dir_rule(s: &str, known_f5: bool) -> R {
    let cs: Vec<&str> = s.chars().map(bname).collect();
    let has_rtl = cs.iter().any(|b| matches!(*b, "R" | "AL" | "AN"));
    let ok = if known_f5 { rfc5893(&cs) && nsm_trailing(&cs) } else { rfc5893(&cs) };
    if has_rtl && !ok { Err(Error::Invalid) } else { Ok(s.to_string()) }
}
fn assigned16(s: &str) -> bool { s.chars().all(|c| o_assigned16(c as u32)) }

// RFC 8264 section 8 over the UCD 6.3.0 oracle (has_compat = NFKC(cp) != cp with the crate's normaliser)
fn nfkc_differs(cp: u32) -> bool { match char::from_u32(cp) { None => false, Some(c) => { let s = c.to_string(); s.nfkc().collect::<String>() != s } } }
fn ref_derived(cp: u32, id: bool) -> V {
    let spec = if id { V::SpecClassDis } else { V::SpecClassPval };
    match o_exception(cp) { 1 => return V::PValid, 2 => return V::ContextO, 3 => return V::Disallowed, _ => {} }
    if o_unassigned(cp) { V::Unassigned }
    else if o_ascii7(cp) { V::PValid }
    else if o_join_control(cp) { V::ContextJ }
    else if o_old_hangul_jamo(cp) { V::Disallowed }
    else if o_precis_ignorable(cp) { V::Disallowed }
    else if o_control(cp) { V::Disallowed }
    else if nfkc_differs(cp) { spec }
    else if o_letter_digit(cp) { V::PValid }
    else if o_other_letter_digit(cp) { spec }
    else if o_space(cp) { spec }
    else if o_symbol(cp) { spec }
    else if o_punctuation(cp) { spec }
    else { V::Disallowed }
}

// RFC 5892 Appendix A over the oracle; positions are code point positions
#[derive(Debug, PartialEq, Eq, Clone, Copy)]
enum RR { True, False, NotApplicable, Undefined }
fn rr(r: Result<bool, context::ContextRuleError>) -> RR {
    match r { Ok(true) => RR::True, Ok(false) => RR::False, Err(context::ContextRuleError::NotApplicable) => RR::NotApplicable, Err(context::ContextRuleError::Undefined) => RR::Undefined }
}
fn b(x: bool) -> RR { if x { RR::True } else { RR::False } }
fn ref_rule(id: usize, s: &[char], o: usize) -> RR {
    if o >= s.len() { return RR::Undefined; }
    let cp = s[o] as u32;
    let own = match id { 0 => cp == 0xb7, 1 => cp == 0x200c, 2 => cp == 0x200d, 3 => cp == 0x375, 4 => cp == 0x5f3 || cp == 0x5f4, 5 => cp == 0x30fb,
        6 => (0x660..=0x669).contains(&cp), _ => (0x6f0..=0x6f9).contains(&cp) };
    if !own { return RR::NotApplicable; }
    let before = if o == 0 { None } else { Some(s[o - 1] as u32) };
    let after = s.get(o + 1).map(|c| *c as u32);
    match id {
        0 => match (before, after) { (Some(p), Some(n)) => b(p == 0x6c && n == 0x6c), _ => RR::Undefined },
        1 => {
            let p = match before { None => return RR::Undefined, Some(p) => p };
            if o_virama(p) { return RR::True; }
            let mut i = o as isize - 1;
            while i >= 0 && o_jt_T(s[i as usize] as u32) { i -= 1; }
            if i < 0 { return RR::Undefined; }
            let l = s[i as usize] as u32;
            if !(o_jt_L(l) || o_jt_D(l)) { return RR::False; }
            let mut j = o + 1;
            while j < s.len() && o_jt_T(s[j] as u32) { j += 1; }
            if j >= s.len() { return RR::Undefined; }
            let r = s[j] as u32;
            b(o_jt_R(r) || o_jt_D(r))
        }
        2 => match before { None => RR::Undefined, Some(p) => b(o_virama(p)) },
        3 => match after { None => RR::Undefined, Some(n) => b(o_script_Greek(n)) },
        4 => match before { None => RR::Undefined, Some(p) => b(o_script_Hebrew(p)) },
        5 => b(s.iter().any(|c| { let c = *c as u32; o_script_Hiragana(c) || o_script_Katakana(c) || o_script_Han(c) })),
        6 => b(!s.iter().any(|c| (0x6f0..=0x6f9).contains(&(*c as u32)))),
        _ => b(!s.iter().any(|c| (0x660..=0x669).contains(&(*c as u32)))),
    }
}
const RULES: [context::ContextRule; 8] = [context::rule_middle_dot, context::rule_zero_width_nonjoiner, context::rule_zero_width_joiner,
    context::rule_greek_lower_numeral_sign_keraia, context::rule_hebrew_punctuation, context::rule_katakana_middle_dot,
    context::rule_arabic_indic_digits, context::rule_extended_arabic_indic_digits];
fn ref_registry(cp: u32) -> Option<usize> {
    match cp { 0xb7 => Some(0), 0x200c => Some(1), 0x200d => Some(2), 0x375 => Some(3), 0x5f3 | 0x5f4 => Some(4), 0x30fb => Some(5),
        0x660..=0x669 => Some(6), 0x6f0..=0x6f9 => Some(7), _ => None }
}

// acceptance of a label by a class given its value function (reference for C02)
fn ref_allows(vf: &dyn Fn(char) -> V, s: &str) -> Result<(), Error> {
    let cs: Vec<char> = s.chars().collect();
    for (i, &c) in cs.iter().enumerate() {
        let v = vf(c);
        let info = || CodepointInfo::new(c as u32, i, v);
        match v {
            V::PValid | V::SpecClassPval => {}
            V::ContextJ | V::ContextO => match ref_registry(c as u32) {
                None => return Err(Error::Unexpected(UnexpectedError::MissingContextRule(info()))),
                Some(id) => match ref_rule(id, &cs, i) {
                    RR::True => {}
                    RR::False => return Err(Error::BadCodepoint(info())),
                    RR::NotApplicable => return Err(Error::Unexpected(UnexpectedError::ContextRuleNotApplicable(info()))),
                    RR::Undefined => return Err(Error::Unexpected(UnexpectedError::Undefined)),
                },
            },
            _ => return Err(Error::BadCodepoint(info())),
        }
    }
    Ok(())
}
// a user-supplied class: arbitrary assignment of values to characters (only ONE digit block contextual, etc.)
struct UserClass(u32);
impl UserClass {
    fn val(&self, c: char) -> V {
        let cp = c as u32;
        match (cp.wrapping_mul(2654435761).wrapping_add(self.0)) % 7 {
            _ if (0x660..=0x669).contains(&cp) => V::ContextO,
            _ if cp == 0x200d || cp == 0xb7 => V::ContextJ,
            _ if (0x6f0..=0x6f9).contains(&cp) => V::PValid,
            0 => V::Disallowed, 1 => V::SpecClassDis, 2 => V::Unassigned, 3 => V::SpecClassPval, _ => V::PValid,
        }
    }
}
impl StringClass for UserClass {
    fn get_value_from_char(&self, c: char) -> V { self.val(c) }
    fn get_value_from_codepoint(&self, cp: u32) -> V { char::from_u32(cp).map(|c| self.val(c)).unwrap_or(V::Disallowed) }
}

fn ref_freeform_prepare(s: &str) -> R {
    if s.is_empty() { return Err(Error::Invalid); }
    ref_allows(&|c| ref_derived(c as u32, false), s)?;
    Ok(s.to_string())
}
fn ref_user_prepare(s: &str) -> R {
    let w = ref_width(s);
    if w.is_empty() { return Err(Error::Invalid); }
    ref_allows(&|c| ref_derived(c as u32, true), &w)?;
    Ok(w)
}
fn ref_user_enforce(s: &str, mapped: bool) -> R {
    let w = ref_user_prepare(s)?;
    let c = if mapped { ref_lower(&w) } else { w };
    let n = non_empty(ref_nfc(&c))?;
    ref_dir_rule(&n, true)
}
fn ref_opaque_enforce(s: &str) -> R { let p = ref_freeform_prepare(s)?; non_empty(ref_nfc(&ref_map_sp(&p))) }
fn ref_nick_step(s: &str) -> R { let p = ref_freeform_prepare(s)?; non_empty(ref_nfkc(&ref_collapse(&p))) }
fn ref_nick_cmp_step(s: &str) -> R { let p = ref_freeform_prepare(s)?; Ok(ref_nfkc(&ref_lower(&ref_collapse(&p)))) }
fn ref_stab(step: &dyn Fn(&str) -> R, s: &str) -> R {
    let mut c = s.to_string();
    for _ in 0..4 { let t = step(&c)?; if t == c { return Ok(c); } c = t; }
    Err(Error::Invalid)
}
fn ref_cmp(a: R, b: R) -> Result<bool, Error> { let x = a?; let y = b?; Ok(x == y) }

// ------------------------------------------------------------------------------------------------ executable clauses
// each returns Some(description) when the clause FAILS on the input
fn guard<T>(what: &str, f: impl FnOnce() -> T) -> Result<T, String> {
    catch_unwind(AssertUnwindSafe(f)).map_err(|_| format!("PANIC in {}", what))
}
macro_rules! eqck { ($what:expr, $got:expr, $exp:expr) => { { let g = &$got; let e = &$exp; if g != e { return Some(format!("{}: got {:?}, expected {:?}", $what, g, e)); } } } }

fn c01(s: &str) -> Option<String> {
    let ucm = UsernameCaseMapped::new(); let ucp = UsernameCasePreserved::new(); let op = OpaqueString::new(); let nk = Nickname::new();
    let r = guard("profile operations", || {
        let _ = ucm.prepare(s); let _ = ucm.enforce(s); let _ = ucm.compare(s, "a"); let _ = ucm.compare("a", s);
        let _ = ucp.prepare(s); let _ = ucp.enforce(s); let _ = ucp.compare(s, s);
        let _ = op.prepare(s); let _ = op.enforce(s); let _ = op.compare(s, s);
        let _ = nk.prepare(s); let _ = nk.enforce(s); let _ = nk.compare(s, "a"); let _ = nk.compare(s, s);
        let _ = ucm.width_mapping_rule(s); let _ = ucm.case_mapping_rule(s); let _ = ucm.normalization_rule(s); let _ = ucm.directionality_rule(s);
        let _ = op.additional_mapping_rule(s); let _ = op.normalization_rule(s);
        let _ = nk.additional_mapping_rule(s); let _ = nk.case_mapping_rule(s); let _ = nk.normalization_rule(s);
        let _ = <Nickname as PrecisFastInvocation>::enforce(s); let _ = <OpaqueString as PrecisFastInvocation>::enforce(s);
        let _ = <UsernameCaseMapped as PrecisFastInvocation>::enforce(s); let _ = <UsernameCasePreserved as PrecisFastInvocation>::enforce(s);
        let _ = IdentifierClass::default().allows(s); let _ = FreeformClass::default().allows(s);
        let n = s.chars().count();
        for f in RULES.iter() { for o in [0usize, 1, 2, n.wrapping_sub(1), n, n + 1, usize::MAX - 1, usize::MAX] { let _ = f(s, o); } }
    });
    r.err()
}
// C01: stabilize is public and takes any rule function, including ones that return a borrowed string different from their input
fn c01_stab(table: &[i8; 6], start: usize, borrowed: bool) -> Option<String> {
    match c13(table, start, borrowed) { Some(d) if d.starts_with("PANIC") => Some(d), _ => None }
}
fn c01_cp(cp: u32) -> Option<String> {
    guard("get_value_from_codepoint", || { let a = IdentifierClass::default().get_value_from_codepoint(cp); let b = FreeformClass::default().get_value_from_codepoint(cp); (a, b) }).err()
        .map(|e| format!("{} for cp {:#x}", e, cp))
}

fn c02(s: &str) -> Option<String> {
    eqck!("IdentifierClass.allows", guard("allows", || IdentifierClass::default().allows(s)).ok()?, ref_allows(&|c| ref_derived(c as u32, true), s));
    eqck!("FreeformClass.allows", FreeformClass::default().allows(s), ref_allows(&|c| ref_derived(c as u32, false), s));
    for k in 0..3u32 { let u = UserClass(k); eqck!("user class allows", u.allows(s), ref_allows(&|c| u.val(c), s)); }
    None
}
fn c03(s: &str) -> Option<String> {
    let cs: Vec<char> = s.chars().collect();
    for (id, f) in RULES.iter().enumerate() {
        for o in 0..cs.len() + 2 {
            let got = match guard("context rule", || f(s, o)) { Ok(g) => rr(g), Err(e) => return Some(e) };
            let exp = ref_rule(id, &cs, o);
            if got != exp { return Some(format!("rule #{} at position {}: got {:?}, expected {:?}", id, o, got, exp)); }
        }
        if rr(f(s, usize::MAX)) != RR::Undefined { return Some(format!("rule #{} at usize::MAX not Undefined", id)); }
    }
    for c in cs { let cp = c as u32; let reg = context::get_context_rule(cp).map(|f| f as usize); let exp = ref_registry(cp).map(|i| RULES[i] as usize);
        if reg != exp { return Some(format!("registry for {:#x}", cp)); } }
    None
}
fn c04(s: &str) -> Option<String> {
    let m = UsernameCaseMapped::new(); let p = UsernameCasePreserved::new();
    if !assigned16(s) { return None; }
    eqck!("UsernameCaseMapped.prepare", own(m.prepare(s)), ref_user_prepare(s));
    eqck!("UsernameCasePreserved.prepare", own(p.prepare(s)), ref_user_prepare(s));
    eqck!("UsernameCaseMapped.enforce", own(m.enforce(s)), ref_user_enforce(s, true));
    eqck!("UsernameCasePreserved.enforce", own(p.enforce(s)), ref_user_enforce(s, false));
    eqck!("UsernameCaseMapped::prepare (static)", own(<UsernameCaseMapped as PrecisFastInvocation>::prepare(s)), ref_user_prepare(s));
    eqck!("UsernameCaseMapped::enforce (static)", own(<UsernameCaseMapped as PrecisFastInvocation>::enforce(s)), ref_user_enforce(s, true));
    eqck!("UsernameCasePreserved::prepare (static)", own(<UsernameCasePreserved as PrecisFastInvocation>::prepare(s)), ref_user_prepare(s));
    eqck!("UsernameCasePreserved::enforce (static)", own(<UsernameCasePreserved as PrecisFastInvocation>::enforce(s)), ref_user_enforce(s, false));
    None
}
fn c05(s: &str) -> Option<String> {
    let o = OpaqueString::new();
    eqck!("OpaqueString.prepare", own(o.prepare(s)), ref_freeform_prepare(s));
    eqck!("OpaqueString.additional_mapping_rule", own(o.additional_mapping_rule(s)), Ok(ref_map_sp(s)));
    eqck!("OpaqueString.normalization_rule", own(o.normalization_rule(s)), Ok(ref_nfc(s)));
    eqck!("OpaqueString.enforce", own(o.enforce(s)), ref_opaque_enforce(s));
    eqck!("OpaqueString::prepare (static)", own(<OpaqueString as PrecisFastInvocation>::prepare(s)), ref_freeform_prepare(s));
    eqck!("OpaqueString::enforce (static)", own(<OpaqueString as PrecisFastInvocation>::enforce(s)), ref_opaque_enforce(s));
    None
}
fn c06(s: &str) -> Option<String> {
    let n = Nickname::new();
    eqck!("Nickname.prepare", own(n.prepare(s)), ref_freeform_prepare(s));
    eqck!("Nickname.normalization_rule", own(n.normalization_rule(s)), Ok(ref_nfkc(s)));
    let got = match guard("Nickname.enforce", || own(n.enforce(s))) { Ok(g) => g, Err(e) => return Some(e) };
    eqck!("Nickname.enforce", got, ref_stab(&ref_nick_step, s));
    if let Ok(e) = &got { eqck!("Nickname.enforce result is a fixed point", ref_nick_step(e), Ok(e.clone())); }
    eqck!("Nickname::prepare (static)", own(<Nickname as PrecisFastInvocation>::prepare(s)), ref_freeform_prepare(s));
    eqck!("Nickname::enforce (static)", own(<Nickname as PrecisFastInvocation>::enforce(s)), ref_stab(&ref_nick_step, s));
    None
}
// C07 speaks about compare relative to the profile's OWN comparison form: for usernames and OpaqueString that is the
// library's enforce; for Nickname it is the library's own rules (prepare, additional mapping, case mapping, NFKC)
// iterated to stability.  A bug inside enforce or inside a rule is therefore not a C07 alarm.
fn lib_nick_canon(n: &Nickname, s: &str) -> R {
    let step = |x: &str| -> R { let p = own(n.prepare(x))?; let m = own(n.additional_mapping_rule(p.as_str()))?; let c = own(n.case_mapping_rule(m.as_str()))?; own(n.normalization_rule(c.as_str())) };
    let mut c = s.to_string();
    for _ in 0..4 { let t = step(&c)?; if t == c { return Ok(c); } c = t; }
    Err(Error::Invalid)
}
fn c07_pair(a: &str, b_: &str) -> Option<String> {
    let m = UsernameCaseMapped::new(); let p = UsernameCasePreserved::new(); let o = OpaqueString::new(); let n = Nickname::new();
    let got = match guard("compare", || (m.compare(a, b_), p.compare(a, b_), o.compare(a, b_), n.compare(a, b_))) { Ok(g) => g, Err(e) => return Some(e) };
    eqck!("UsernameCaseMapped.compare vs enforce(a) == enforce(b)", got.0, ref_cmp(own(m.enforce(a)), own(m.enforce(b_))));
    eqck!("UsernameCasePreserved.compare vs enforce(a) == enforce(b)", got.1, ref_cmp(own(p.enforce(a)), own(p.enforce(b_))));
    eqck!("OpaqueString.compare vs enforce(a) == enforce(b)", got.2, ref_cmp(own(o.enforce(a)), own(o.enforce(b_))));
    eqck!("Nickname.compare vs its comparison rules iterated to stability", got.3, ref_cmp(lib_nick_canon(&n, a), lib_nick_canon(&n, b_)));
    eqck!("UsernameCaseMapped::compare (static) vs instance", <UsernameCaseMapped as PrecisFastInvocation>::compare(a, b_), got.0);
    eqck!("UsernameCasePreserved::compare (static) vs instance", <UsernameCasePreserved as PrecisFastInvocation>::compare(a, b_), got.1);
    eqck!("OpaqueString::compare (static) vs instance", <OpaqueString as PrecisFastInvocation>::compare(a, b_), got.2);
    eqck!("Nickname::compare (static) vs instance", <Nickname as PrecisFastInvocation>::compare(a, b_), got.3);
    None
}
fn c08(s: &str) -> Option<String> {
    let bad = |v: V| matches!(v, V::Disallowed | V::Unassigned);
    macro_rules! one { ($name:expr, $p:expr, $id:expr) => { if let Ok(e) = own($p.enforce(s)) {
        for c in e.chars() { let v = ref_derived(c as u32, $id); if bad(v) { return Some(format!("{}: enforce({}) = {} contains {:#x} which is {:?}", $name, esc(s), esc(&e), c as u32, v)); } }
        match own($p.enforce(e.as_str())) { Ok(e2) if e2 != e => return Some(format!("{}: enforce drifts: {} -> {} -> {}", $name, esc(s), esc(&e), esc(&e2))), _ => {} }
    } } }
    one!("UsernameCaseMapped", UsernameCaseMapped::new(), true);
    one!("UsernameCasePreserved", UsernameCasePreserved::new(), true);
    one!("OpaqueString", OpaqueString::new(), false);
    one!("Nickname", Nickname::new(), false);
    None
}
fn c09(s: &str, exact: bool) -> Option<String> {
    if !assigned16(s) { return None; }
    let m = UsernameCaseMapped::new();
    eqck!("directionality_rule", own(m.directionality_rule(s)), ref_dir_rule(s, !exact));
    None
}
fn c10(s: &str) -> Option<String> {
    let got = match guard("case_mapping_rule", || own(UsernameCaseMapped::new().case_mapping_rule(s))) { Ok(g) => g, Err(e) => return Some(e) };
    eqck!("case_mapping_rule", got, Ok(ref_lower(s)));
    eqck!("Nickname.case_mapping_rule", own(Nickname::new().case_mapping_rule(s)), Ok(ref_lower(s)));
    None
}
fn c11(s: &str) -> Option<String> {
    eqck!("width_mapping_rule", own(UsernameCaseMapped::new().width_mapping_rule(s)), Ok(ref_width(s)));
    eqck!("width_mapping_rule (case preserved)", own(UsernameCasePreserved::new().width_mapping_rule(s)), Ok(ref_width(s)));
    let w = ref_width(s);
    eqck!("width mapping idempotent", own(UsernameCaseMapped::new().width_mapping_rule(w.as_str())), Ok(w.clone()));
    None
}
fn c12(s: &str) -> Option<String> {
    let got = match guard("Nickname.additional_mapping_rule", || own(Nickname::new().additional_mapping_rule(s))) { Ok(g) => g, Err(e) => return Some(e) };
    eqck!("Nickname.additional_mapping_rule", got, Ok(ref_collapse(s)));
    eqck!("OpaqueString.additional_mapping_rule", own(OpaqueString::new().additional_mapping_rule(s)), Ok(ref_map_sp(s)));
    None
}
fn mk_rule<F>(f: F) -> F where F: for<'b> Fn(&'b str) -> Result<Cow<'b, str>, Error> { f }
// C13: all rule functions over a small state space: state i -> table[i] (a state or an error)
fn c13(table: &[i8; 6], start: usize, borrowed: bool) -> Option<String> {
    // the states are strings related by prefix / emptiness / length, so a comparison that looks only at a prefix, a length or the
    // Cow variant instead of the content is exposed
    const NAMES: [&str; 6] = ["", "a", "ab", "abc", "b", "ba"];
    let idx = |s: &str| NAMES.iter().position(|n| *n == s).unwrap();
    let calls = std::cell::Cell::new(0usize);
    let f = mk_rule(|s: &str| {
        calls.set(calls.get() + 1);
        let t = table[idx(s)];
        if t == -1 { return Err(Error::Unexpected(UnexpectedError::Undefined)); }
        if t == -2 { return Err(Error::BadCodepoint(CodepointInfo::new(7, 7, V::Disallowed))); }
        if borrowed { Ok(Cow::Borrowed(NAMES[t as usize])) } else { Ok(Cow::Owned(NAMES[t as usize].to_string())) }
    });
    let got = match guard("stabilize", || own(stabilize(NAMES[start], f))) { Ok(g) => g, Err(e) => return Some(e) };
    // reference
    let mut c = start; let mut exp: R = Err(Error::Invalid); let mut n = 0;
    for _ in 0..4 { n += 1; let t = table[c];
        if t == -1 { exp = Err(Error::Unexpected(UnexpectedError::Undefined)); break; }
        if t == -2 { exp = Err(Error::BadCodepoint(CodepointInfo::new(7, 7, V::Disallowed))); break; }
        if t as usize == c { exp = Ok(NAMES[c].to_string()); break; } c = t as usize; }
    if got != exp { return Some(format!("stabilize from {} over {:?} (borrowed={}): got {}, expected {}", NAMES[start], table, borrowed, show(&got), show(&exp))); }
    if calls.get() > 4 || calls.get() != n { return Some(format!("stabilize applied f {} times, expected {} (never more than 4)", calls.get(), n)); }
    None
}
fn c14_cp(cp: u32) -> Option<String> {
    let id = IdentifierClass::default(); let ff = FreeformClass::default();
    let (gi, gf) = match guard("get_value_from_codepoint", || (id.get_value_from_codepoint(cp), ff.get_value_from_codepoint(cp))) { Ok(x) => x, Err(e) => return Some(format!("{} cp={:#x}", e, cp)) };
    let (ei, ef) = (ref_derived(cp, true), ref_derived(cp, false));
    if gi != ei { return Some(format!("IdentifierClass {:#x}: got {:?}, expected {:?}", cp, gi, ei)); }
    if gf != ef { return Some(format!("FreeformClass {:#x}: got {:?}, expected {:?}", cp, gf, ef)); }
    if let Some(c) = char::from_u32(cp) {
        if id.get_value_from_char(c) != gi || ff.get_value_from_char(c) != gf { return Some(format!("char and code point entry points disagree for {:#x}", cp)); }
    } else if !matches!(gi, V::Disallowed | V::Unassigned) || !matches!(gf, V::Disallowed | V::Unassigned) { return Some(format!("non-scalar {:#x} is valid", cp)); }
    if (gi == V::SpecClassDis) != (gf == V::SpecClassPval) || (gi != V::SpecClassDis && gi != gf) { return Some(format!("class relation broken at {:#x}: {:?} / {:?}", cp, gi, gf)); }
    None
}
fn c16(s: &str) -> Option<String> {
    macro_rules! one { ($t:ty, $name:expr) => { {
        let fresh = <$t>::new(); let long = <$t>::new();
        let _ = long.enforce("warm up"); let _ = long.compare("x", "y");
        let owned: String = s.to_string(); let cow: Cow<str> = Cow::from(s);
        eqck!(concat!($name, " prepare static vs instance"), own(<$t as PrecisFastInvocation>::prepare(s)), own(fresh.prepare(s)));
        eqck!(concat!($name, " enforce static vs instance"), own(<$t as PrecisFastInvocation>::enforce(s)), own(fresh.enforce(s)));
        eqck!(concat!($name, " enforce fresh vs long-lived"), own(long.enforce(s)), own(fresh.enforce(s)));
        eqck!(concat!($name, " enforce &str vs String"), own(fresh.enforce(owned.clone())), own(fresh.enforce(s)));
        eqck!(concat!($name, " enforce &str vs Cow"), own(fresh.enforce(cow.clone())), own(fresh.enforce(s)));
        eqck!(concat!($name, " compare static vs instance"), <$t as PrecisFastInvocation>::compare(s, "a"), fresh.compare(s, "a"));
        eqck!(concat!($name, " compare(s, s) static vs instance"), <$t as PrecisFastInvocation>::compare(s, s), fresh.compare(s, s));
        eqck!(concat!($name, " compare(s, s) static vs long-lived"), <$t as PrecisFastInvocation>::compare(s, s), long.compare(s, s));
    } } }
    one!(Nickname, "Nickname"); one!(OpaqueString, "OpaqueString"); one!(UsernameCaseMapped, "UsernameCaseMapped"); one!(UsernameCasePreserved, "UsernameCasePreserved");
    None
}
// history independence, without any reference implementation (so a purely functional bug cannot raise a C16 alarm):
// the result of each operation in THIS process (long history: every profile, every form, thousands of earlier calls)
// must equal the result of the same single operation in a FRESH process that has made no other call.
fn one_op(profile: &str, s: &str) -> String {
    match profile {
        "nick" => show(&own(Nickname::new().enforce(s))),
        "opaque" => show(&own(OpaqueString::new().enforce(s))),
        "ucm" => show(&own(UsernameCaseMapped::new().enforce(s))),
        "ucp" => show(&own(UsernameCasePreserved::new().enforce(s))),
        "snick" => show(&own(<Nickname as PrecisFastInvocation>::enforce(s))),
        "sucm" => show(&own(<UsernameCaseMapped as PrecisFastInvocation>::enforce(s))),
        _ => String::from("?"),
    }
}
fn c16_history(s: &str) -> Option<String> {
    let exe = std::env::current_exe().ok()?;
    for p in ["nick", "opaque", "ucm", "ucp", "snick", "sucm"] {
        let here = one_op(p, s);
        let out = std::process::Command::new(&exe).args(["one", p, &json_str(s)]).output().ok()?;
        let fresh = String::from_utf8_lossy(&out.stdout).trim().to_string();
        if fresh != here { return Some(format!("{} enforce({}): fresh process gives {}, this process (after many other calls) gives {}", p, esc(s), fresh, here)); }
    }
    None
}
// C16, threads: N threads call the static and the instance API at the same time, starting with the very first use of the
// lazily created static profiles; afterwards the same calls are made sequentially and must give the same results.
fn c16_threads(seed: u64) -> Option<String> {
    let wide: Vec<char> = (0xff21u32..0xff3b).chain(0xff41..0xff5b).chain(0xff66..0xff9e).filter_map(char::from_u32).collect();
    let nthreads = 8usize;
    let mut inputs: Vec<Vec<String>> = Vec::new();
    let mut r = Rng(seed | 1);
    for t in 0..nthreads {
        let mut v = Vec::new();
        for k in 0..24usize {
            let a = wide[(t * 7 + k) % wide.len()]; let b_ = wide[(t * 13 + 3 * k + 1) % wide.len()];
            v.push(format!("{}{}{}{}", a, b_, a, b_));
            v.push(format!("{}x{}", a, ALPHABET[r.below(ALPHABET.len())]));
            v.push(format!("{} {}  {}", ALPHABET[r.below(ALPHABET.len())], a, ALPHABET[r.below(ALPHABET.len())]));
        }
        inputs.push(v);
    }
    let ops = |s: &str| -> Vec<String> { vec![
        show(&own(<UsernameCaseMapped as PrecisFastInvocation>::prepare(s))), show(&own(<UsernameCaseMapped as PrecisFastInvocation>::enforce(s))),
        show(&own(<UsernameCasePreserved as PrecisFastInvocation>::enforce(s))), show(&own(<OpaqueString as PrecisFastInvocation>::enforce(s))),
        show(&own(<Nickname as PrecisFastInvocation>::enforce(s))), show(&own(UsernameCaseMapped::new().enforce(s))),
        show(&own(UsernameCasePreserved::new().prepare(s))), show(&own(Nickname::new().enforce(s))), show(&own(OpaqueString::new().enforce(s))),
        format!("{:?}", <Nickname as PrecisFastInvocation>::compare(s, s)), format!("{:?}", <UsernameCaseMapped as PrecisFastInvocation>::compare(s, "a")),
    ] };
    let barrier = std::sync::Arc::new(std::sync::Barrier::new(nthreads));
    let mut hs = Vec::new();
    for t in 0..nthreads {
        let my = inputs[t].clone(); let bar = barrier.clone();
        hs.push(std::thread::spawn(move || { bar.wait(); let mut out = Vec::new(); for _round in 0..40 { for s in &my { out.push((s.clone(), ops(s))); } } out }));
    }
    let mut conc = Vec::new();
    for h in hs { match h.join() { Ok(v) => conc.extend(v), Err(_) => return Some("PANIC in a thread calling the library concurrently".to_string()) } }
    for (s, got) in conc { let exp = ops(&s); if got != exp {
        return Some(format!("concurrent calls gave {:?} for {}, the same calls made alone give {:?}", got, esc(&s), exp)); } }
    None
}
fn c18(single: bool, a: u32, b_: u32, cp: u32) -> Option<String> {
    use precis_core::Codepoints;
    use std::cmp::Ordering;
    let e = if single { Codepoints::Single(a) } else { Codepoints::Range(std::ops::RangeInclusive::new(a, b_)) };
    let (lo, hi) = if single { (a, a) } else { (a, b_) };
    let (lt, gt, eq) = (e.lt(&cp), e.gt(&cp), e == cp);
    let ok = lt == (hi < cp) && gt == (lo > cp) && eq == (lo <= cp && cp <= hi)
        && e.partial_cmp(&cp) == Some(if lt { Ordering::Less } else if gt { Ordering::Greater } else { Ordering::Equal })
        && e.le(&cp) == (lt || eq) && e.ge(&cp) == (gt || eq) && cp.lt(&e) == gt && cp.gt(&e) == lt && (cp == e) == eq
        && cp.le(&e) == (gt || eq) && cp.ge(&e) == (lt || eq)
        && cp.partial_cmp(&e) == Some(if gt { Ordering::Less } else if lt { Ordering::Greater } else { Ordering::Equal });
    if ok { None } else { Some(format!("Codepoints comparison incoherent: single={} a={:#x} b={:#x} cp={:#x}", single, a, b_, cp)) }
}

// ------------------------------------------------------------------------------------------------ driver
fn report(found: Option<(String, String)>) {
    match found {
        Some((input, detail)) => println!("{{\"found\":true,\"input\":{},\"detail\":{}}}", input, json_str(&detail)),
        None => println!("{{\"found\":false}}"),
    }
}
fn cps_sample(seed: u64, budget: usize) -> Vec<u32> {
    let mut v = vec![0, 0x20, 0x7f, 0x80, 0xb7, 0xd7ff, 0xd800, 0xdbff, 0xdc00, 0xdfff, 0xe000, 0xfffe, 0xffff, 0x10ffff, 0x110000, 0x110001, 0x7fffffff, 0x80000000, u32::MAX - 1, u32::MAX];
    let mut r = Rng(seed | 1);
    while v.len() < budget { v.push((r.next() >> 11) as u32); v.push((r.next() % 0x110000) as u32); }
    v
}

fn search(pid: &str, seed: u64, budget: usize) -> Option<(String, String)> {
    let strs = corpus(seed, budget);
    // a panic inside a clause is a panic of the library operation the clause calls: for every property that says what
    // the operation returns it is a failing input (for C16, which only compares forms and histories, it is skipped)
    let skip_panics = pid == "C16";
    let by_str = |f: &dyn Fn(&str) -> Option<String>| -> Option<(String, String)> {
        for s in &strs {
            match catch_unwind(AssertUnwindSafe(|| f(s))) {
                Ok(Some(d)) => return Some((json_str(s), d)),
                Ok(None) => {}
                Err(_) => if !skip_panics { return Some((json_str(s), "PANIC in a library operation of this property (it must return Ok or a typed error)".to_string())); },
            }
        }
        None
    };
    match pid {
        "C01" => by_str(&c01).or_else(|| { for cp in cps_sample(seed, 4000) { if let Some(d) = c01_cp(cp) { return Some((format!("{}", cp), d)); } } None })
            .or_else(|| { let vals: [i8; 8] = [0, 1, 2, 3, 4, 5, -1, -2]; let mut r = Rng(seed | 1);
                for _ in 0..20000usize { let mut t = [0i8; 6]; for x in t.iter_mut() { *x = vals[r.below(8)]; }
                    for st in 0..6 { for bw in [false, true] { if let Some(d) = c01_stab(&t, st, bw) { return Some((format!("{{\"table\":{:?},\"start\":{},\"borrowed\":{}}}", t, st, bw), d)); } } } } None }),
        "C02" => by_str(&c02),
        "C03" => by_str(&c03),
        "C04" => by_str(&c04),
        "C05" => by_str(&c05),
        "C06" => by_str(&c06),
        "C07" => { let n = strs.len().min(400); for a in &strs[..n] { for b_ in strs[..n].iter().step_by(7) { if let Some(d) = c07_pair(a, b_) { return Some((format!("[{},{}]", json_str(a), json_str(b_)), d)); } } }
                   for a in &strs { let l = ref_lower(a); let w = ref_width(a); let k = ref_nfkc(a); for b_ in [l.as_str(), w.as_str(), k.as_str()] { if let Some(d) = c07_pair(a, b_) { return Some((format!("[{},{}]", json_str(a), json_str(b_)), d)); } } } None }
        "C08" => by_str(&c08),
        // the code points of the listed known finding (Cherokee U+13A0..U+13F4 lowercasing to unassigned U+AB70..) are left out
        "C08known" => by_str(&|s| if s.chars().any(|c| (0x13a0..=0x13f4).contains(&(c as u32))) { None } else { c08(s) }),
        "C09" => by_str(&|s| c09(s, false)),
        "C09exact" => by_str(&|s| c09(s, true)),
        "C10" => by_str(&c10),
        "C11" => by_str(&c11),
        "C12" => by_str(&c12),
        "C13" => { let vals: [i8; 8] = [0, 1, 2, 3, 4, 5, -1, -2]; let mut r = Rng(seed | 1);
                   for it in 0..200000usize { let mut t = [0i8; 6]; for x in t.iter_mut() { *x = vals[r.below(8)]; }
                       if it < 6 { t = [1, 2, 3, 4, 5, 5]; t[5 - it % 6] = (5 - it % 6) as i8; }
                       for st in 0..6 { for bw in [false, true] { if let Some(d) = c13(&t, st, bw) { return Some((format!("{{\"table\":{:?},\"start\":{},\"borrowed\":{}}}", t, st, bw), d)); } } } } None }
        "C14" => { for cp in cps_sample(seed, 20000) { if let Some(d) = c14_cp(cp) { return Some((format!("{}", cp), d)); } } None }
        "C16" => by_str(&c16).or_else(|| {
            for s in ["a b", "Guybrush Threepwood", " ", "a\u{a0}b", "A B", "\u{5d0} a"] { if let Some(d) = c16_history(s) { return Some((json_str(s), d)); } }
            for s in strs.iter().filter(|s| s.chars().count() <= 3).step_by(29).take(120) { if let Some(d) = c16_history(s) { return Some((json_str(s), d)); } }
            for k in 0..3u64 { if let Some(d) = c16_threads(seed.wrapping_add(k)) { return Some((format!("\"threads seed {}\"", seed.wrapping_add(k)), d)); } }
            None }),
        "C15" => { let n = if budget > 50000 { 4000 } else { 400 }; for i in 0..n { if let Some(x) = gen15::check(seed.wrapping_mul(1000003).wrapping_add(i)) { return Some((x.0, x.1)); } } None }
        "C18" => { let pts = [0u32, 1, 2, 3, 4, 5, 6, u32::MAX - 2, u32::MAX - 1, u32::MAX];
                   for &a in &pts { for &b_ in &pts { for &cp in &pts { for single in [true, false] { if !single && a > b_ { continue; } if let Some(d) = c18(single, a, b_, cp) { return Some((format!("[{},{},{},{}]", single, a, b_, cp), d)); } } } } } None }
        _ => None,
    }
}

fn exhaustive(name: &str) -> i32 {
    match name {
        // complete finite domain 0..=0x10FFFF plus boundary values above, both classes, both entry points
        "derived" => { let mut n = 0u64;
            // discharges the Verus-side axiom `axiom_space_freeform` on the real classification
            if FreeformClass::default().get_value_from_codepoint(0x20) != V::SpecClassPval { println!("{{\"found\":true,\"input\":32,\"detail\":\"U+0020 is not FREE_PVAL\"}}"); return 1; } for cp in (0..=0x10ffffu32).chain([0x110000, 0x110001, 0xffffff, 0x7fffffff, 0x80000000, u32::MAX - 1, u32::MAX]) { n += 1;
            if let Some(d) = c14_cp(cp) { println!("{{\"found\":true,\"input\":{},\"detail\":{}}}", cp, json_str(&d)); return 1; } }
            println!("{{\"found\":false,\"evaluated\":{}}}", n); 0 }
        // C08 needs the derived property of CHARACTERS only (what an enforced string can contain): same comparison, scalar values only,
        // so that a change that affects only surrogates or values above U+10FFFF (C14's business) is not a C08 alarm
        "derived_scalar" => { let mut n = 0u64;
            if FreeformClass::default().get_value_from_codepoint(0x20) != V::SpecClassPval { println!("{{\"found\":true,\"input\":32,\"detail\":\"U+0020 is not FREE_PVAL\"}}"); return 1; }
            for cp in 0..=0x10ffffu32 { if char::from_u32(cp).is_none() { continue; } n += 1;
                if let Some(d) = c14_cp(cp) { println!("{{\"found\":true,\"input\":{},\"detail\":{}}}", cp, json_str(&d)); return 1; } }
            println!("{{\"found\":false,\"evaluated\":{}}}", n); 0 }
        // C01: classification of every scalar value, every surrogate and boundary values above U+10FFFF returns (no panic);
        // only panics count here, not which value is returned
        "no_panic_cp" => { let mut n = 0u64; for cp in (0..=0x10ffffu32).chain([0x110000, 0x110001, 0xffffff, 0x7fffffff, 0x80000000, u32::MAX - 1, u32::MAX]) { n += 1;
            if let Some(d) = c01_cp(cp) { println!("{{\"found\":true,\"input\":{},\"detail\":{}}}", cp, json_str(&d)); return 1; }
            if let Some(c) = char::from_u32(cp) { if guard("get_value_from_char", || { let _ = IdentifierClass::default().get_value_from_char(c); let _ = FreeformClass::default().get_value_from_char(c); }).is_err() {
                println!("{{\"found\":true,\"input\":{},\"detail\":\"PANIC in get_value_from_char\"}}", cp); return 1; } } }
            println!("{{\"found\":false,\"evaluated\":{}}}", n); 0 }
        // C08 per-code-point lemmas for usernames: lowercase of an IdentifierClass-valid character stays non-forbidden
        "lower_valid" => { let mut bad = Vec::new(); let mut n = 0u64;
            for cp in 0..=0x10ffffu32 { if let Some(c) = char::from_u32(cp) { n += 1; let v = ref_derived(cp, true);
                if matches!(v, V::PValid | V::SpecClassPval | V::ContextJ | V::ContextO) { for l in c.to_lowercase() { let vl = ref_derived(l as u32, true);
                    if matches!(vl, V::Disallowed | V::Unassigned) { bad.push(cp); } } } } }
            println!("{{\"found\":{},\"evaluated\":{},\"bad\":{:?}}}", !bad.is_empty(), n, bad); if bad.is_empty() { 0 } else { 1 } }
        // C09: the bidi class of EVERY code point assigned in the profile crate's Unicode version, as observable through
        // the public directionality rule: four probe labels per code point against the rule evaluated over the UCD oracle
        "bidi_probe" => { let m = UsernameCaseMapped::new(); let mut n = 0u64;
            for cp in 0..=0x10ffffu32 { if !o_assigned16(cp) { continue; } if let Some(c) = char::from_u32(cp) { n += 1;
                for probe in [format!("{}", c), format!("\u{5d0}{}", c), format!("a{}", c), format!("\u{5d0}{}\u{5d0}", c), format!("\u{627}{}\u{661}", c)] {
                    let got = own(m.directionality_rule(probe.as_str())); let exp = ref_dir_rule(&probe, true);
                    if got != exp { println!("{{\"found\":true,\"input\":{},\"detail\":{}}}", json_str(&probe), json_str(&format!("directionality_rule({}): got {}, expected {} (bidi class of U+{:04X} per UnicodeData: {})", esc(&probe), show(&got), show(&exp), cp, bname(c)))); return 1; } } } }
            println!("{{\"found\":false,\"evaluated\":{}}}", n); 0 }
        // C11 / C04: width mapping of EVERY scalar value, alone and after a multi-byte / an already mapped character, through the public rule
        "width_cp" => { let m = UsernameCasePreserved::new(); let mut n = 0u64;
            for cp in 0..=0x10ffffu32 { if let Some(c) = char::from_u32(cp) { n += 1;
                for probe in [format!("{}", c), format!("\u{e9}{}b", c), format!("\u{ff21}{}", c), format!("a\u{ff01}bc{}d", c)] {
                    let got = own(m.width_mapping_rule(probe.as_str())); let exp: R = Ok(ref_width(&probe));
                    if got != exp { println!("{{\"found\":true,\"input\":{},\"detail\":{}}}", json_str(&probe), json_str(&format!("width_mapping_rule({}): got {}, expected {}", esc(&probe), show(&got), show(&exp)))); return 1; } } } }
            println!("{{\"found\":false,\"evaluated\":{}}}", n); 0 }
        // C10 / C04: lowercase mapping of EVERY scalar value, alone, after an unmapped multi-byte character and after a mapped one
        "lower_cp" => { let m = UsernameCaseMapped::new(); let mut n = 0u64;
            for cp in 0..=0x10ffffu32 { if let Some(c) = char::from_u32(cp) { n += 1;
                for probe in [format!("{}", c), format!("\u{e9}{}b", c), format!("A{}", c), format!("aAbc{}d", c)] {
                    let got = own(m.case_mapping_rule(probe.as_str())); let exp: R = Ok(ref_lower(&probe));
                    if got != exp { println!("{{\"found\":true,\"input\":{},\"detail\":{}}}", json_str(&probe), json_str(&format!("case_mapping_rule({}): got {}, expected {}", esc(&probe), show(&got), show(&exp)))); return 1; } } } }
            println!("{{\"found\":false,\"evaluated\":{}}}", n); 0 }
        _ => 2,
    }
}

fn replay(pid: &str, input: &str) -> i32 {
    // input is the JSON produced by search: a string, a pair of strings, a number, ...
    let parse_str = |j: &str| -> String { // minimal JSON string parser
        let mut o = String::new(); let cs: Vec<char> = j.trim().trim_matches('"').chars().collect(); let mut i = 0;
        while i < cs.len() { if cs[i] == '\\' && i + 1 < cs.len() { match cs[i + 1] { 'u' => { let h: String = cs[i + 2..i + 6].iter().collect(); o.push(char::from_u32(u32::from_str_radix(&h, 16).unwrap()).unwrap()); i += 6; continue; } c => { o.push(c); i += 2; continue; } } } o.push(cs[i]); i += 1; }
        o };
    let d = match catch_unwind(AssertUnwindSafe(|| Ok::<Option<String>, i32>(match pid {
        "C01" => if input.trim().starts_with('"') { c01(&parse_str(input)) } else { c01_cp(input.trim().parse().unwrap()) },
        "C02" => c02(&parse_str(input)), "C03" => c03(&parse_str(input)), "C04" => c04(&parse_str(input)), "C05" => c05(&parse_str(input)),
        "C06" => c06(&parse_str(input)), "C08" | "C08known" => c08(&parse_str(input)), "C09" => c09(&parse_str(input), false), "C09exact" => c09(&parse_str(input), true),
        "C10" => c10(&parse_str(input)), "C11" => c11(&parse_str(input)), "C12" => c12(&parse_str(input)), "C16" => c16(&parse_str(input)).or_else(|| c16_history(&parse_str(input))),
        "C14" => c14_cp(input.trim().parse().unwrap()),
        "C07" => { let t = input.trim().trim_start_matches('[').trim_end_matches(']'); let mid = t.find("\",\"").unwrap(); c07_pair(&parse_str(&t[..mid + 1]), &parse_str(&t[mid + 2..])) }
        _ => { println!("replay of {} inputs: re-run `search`", pid); return Err(2); }
    }))) { Ok(Ok(d)) => d, Ok(Err(rc)) => return rc, Err(_) => Some("PANIC in a library operation of this property (it must return Ok or a typed error)".to_string()) };
    match d { Some(d) => { println!("FAILS on the real code: {}", d); 1 } None => { println!("passes on the real code"); 0 } }
}

fn main() {
    std::panic::set_hook(Box::new(|_| {}));
    let a: Vec<String> = std::env::args().collect();
    match a.get(1).map(|s| s.as_str()) {
        Some("search") => report(search(&a[2], a[3].parse().unwrap_or(0), a[4].parse().unwrap_or(20000))),
        Some("replay") => std::process::exit(replay(&a[2], &a[3])),
        Some("one") => { let st = { let j = &a[3]; let mut o = String::new(); let cs: Vec<char> = j.trim().trim_matches('"').chars().collect(); let mut i = 0;
            while i < cs.len() { if cs[i] == '\\' && i + 1 < cs.len() { match cs[i + 1] { 'u' => { let h: String = cs[i + 2..i + 6].iter().collect(); o.push(char::from_u32(u32::from_str_radix(&h, 16).unwrap()).unwrap()); i += 6; continue; } c => { o.push(c); i += 2; continue; } } } o.push(cs[i]); i += 1; } o };
            println!("{}", one_op(&a[2], &st)); }
        Some("exhaustive") => std::process::exit(exhaustive(&a[2])),
        _ => { eprintln!("usage: verif_replay search|replay|exhaustive ..."); std::process::exit(2) }
    }
}
