// C15, executable form: drive the REAL generators (public precis-tools API) on small, randomly generated,
// well-formed UCD inputs written to a temp directory, parse the emitted Rust tables back, and compare what they
// denote (and whether they are searchable the way the library searches them) with what the input assigns.
// Bounded (sampled inputs), never counted as proved.
use precis_tools::{
    BidiClassGen, DerivedJoiningType, GeneralCategoryGen, HangulSyllableType, RustCodeGen, UcdFileGen, UcdTableGen,
    UnassignedTableGen, UnicodeGen, ViramaTableGen, WidthMappingTableGen,
};
use std::collections::BTreeMap;
use std::fmt::Write as _;
use std::path::Path;

pub struct Rng(pub u64);
impl Rng {
    pub fn next(&mut self) -> u64 { self.0 ^= self.0 << 13; self.0 ^= self.0 >> 7; self.0 ^= self.0 << 17; self.0 }
    pub fn below(&mut self, n: u64) -> u64 { self.next() % n }
}

#[derive(Clone, Debug)]
pub struct Row { pub lo: u32, pub hi: u32, pub gc: &'static str, pub ccc: u8, pub bidi: &'static str, pub dec: Option<(&'static str, u32)> }

const GCS: [&str; 6] = ["Lu", "Ll", "Zs", "Mn", "Mc", "Lo"];
const BIDIS: [&str; 6] = ["L", "R", "AL", "NSM", "AN", "EN"];
const SCRIPTS: [&str; 5] = ["Han", "Hangul", "Hanunoo", "Greek", "Hebrew"];

pub fn gen_rows(r: &mut Rng) -> Vec<Row> {
    let n = 1 + r.below(9) as usize;
    let mut rows = Vec::new();
    let mut next: u32 = if r.below(3) == 0 { 0 } else { r.below(40) as u32 };
    for _ in 0..n {
        let gap = match r.below(4) { 0 => 0, 1 => 1, 2 => 2, _ => r.below(30) as u32 };
        let lo = next + gap;
        let is_range = r.below(3) == 0;
        let hi = if is_range { lo + 1 + r.below(12) as u32 } else { lo };
        let gc = GCS[r.below(6) as usize];
        let ccc = match r.below(4) { 0 => 9, 1 => 230, _ => 0 };
        let bidi = BIDIS[r.below(6) as usize];
        let dec = if is_range { None } else { match r.below(6) { 0 => Some(("<wide>", 0x20 + r.below(90) as u32)), 1 => Some(("<narrow>", 0x20 + r.below(90) as u32)),
            2 => Some(("<compat>", 0x41)), 3 => Some(("", 0x41)), _ => None } };
        rows.push(Row { lo, hi, gc, ccc, bidi, dec });
        next = hi + 1;
    }
    rows
}

pub fn unicode_data_txt(rows: &[Row]) -> String {
    let mut s = String::new();
    let line = |s: &mut String, cp: u32, name: &str, r: &Row| {
        let dec = match r.dec { Some((t, m)) if t.is_empty() => format!("{:04X}", m), Some((t, m)) => format!("{} {:04X}", t, m), None => String::new() };
        let _ = writeln!(s, "{:04X};{};{};{};{};{};;;;N;;;;;", cp, name, r.gc, r.ccc, r.bidi, dec);
    };
    for r in rows {
        if r.lo == r.hi { line(&mut s, r.lo, "TEST CHARACTER", r); }
        else { line(&mut s, r.lo, "<Test Block, First>", r); line(&mut s, r.hi, "<Test Block, Last>", r); }
    }
    s
}

// value-per-range property files (Scripts.txt style)
pub fn gen_props(r: &mut Rng, names: &[&'static str]) -> Vec<(u32, u32, &'static str)> {
    let n = 1 + r.below(7) as usize;
    let mut v = Vec::new();
    let mut next = r.below(20) as u32;
    for _ in 0..n {
        let lo = next + r.below(4) as u32;
        let hi = if r.below(2) == 0 { lo } else { lo + r.below(9) as u32 };
        v.push((lo, hi, names[r.below(names.len() as u64) as usize]));
        next = hi + 1;
    }
    v
}
pub fn props_txt(v: &[(u32, u32, &'static str)]) -> String {
    let mut s = String::from("# test data\n");
    for (lo, hi, n) in v {
        if lo == hi { let _ = writeln!(s, "{:04X}          ; {} # comment", lo, n); } else { let _ = writeln!(s, "{:04X}..{:04X}    ; {} # comment", lo, hi, n); }
    }
    s
}

#[derive(Debug, Clone)]
pub enum Val { None, Class(String), Num(u32) }
pub type Table = Vec<(u32, u32, Val)>;

// parse the emitted Rust source back into tables: name -> entries (lo, hi, value)
pub fn parse_tables(src: &str) -> BTreeMap<String, Table> {
    let mut out = BTreeMap::new();
    let mut cur: Option<(String, Table)> = None;
    for line in src.lines() {
        let t = line.trim();
        if let Some(rest) = t.strip_prefix("static ") {
            let name = rest.split(':').next().unwrap().trim().to_string();
            cur = Some((name, Vec::new()));
            if t.ends_with("];") { let (n, tb) = cur.take().unwrap(); out.insert(n, tb); }
            continue;
        }
        if t == "];" { if let Some((n, tb)) = cur.take() { out.insert(n, tb); } continue; }
        if let Some((_, tb)) = cur.as_mut() {
            let hexes: Vec<u32> = t.split(|c: char| !(c.is_ascii_hexdigit() || c == 'x')).filter(|w| w.starts_with("0x")).filter_map(|w| u32::from_str_radix(&w[2..], 16).ok()).collect();
            let (lo, hi, rest) = if t.contains("Codepoints::Single(") { (hexes[0], hexes[0], &hexes[1..]) } else if t.contains("Codepoints::Range(") { (hexes[0], hexes[1], &hexes[2..]) } else { continue };
            let val = if let Some(i) = t.find("BidiClass::") { Val::Class(t[i + 11..].trim_end_matches(|c| c == ')' || c == ',').to_string()) } else if !rest.is_empty() { Val::Num(rest[0]) } else { Val::None };
            tb.push((lo, hi, val));
        }
    }
    out
}

fn searchable(t: &Table) -> bool {
    // increasing order with possibly empty (lo == hi + 1) entries: the binary search of the library finds an entry iff one contains cp
    for (i, (lo, hi, _)) in t.iter().enumerate() {
        if *lo > hi + 1 { return false; }
        if i + 1 < t.len() && *hi >= t[i + 1].0 { return false; }
    }
    true
}
fn lookup(t: &Table, cp: u32) -> Option<&Val> {
    // mirror of binary_search_by(|e| e.partial_cmp(&cp)) on Codepoints
    let (mut a, mut b) = (0usize, t.len());
    while a < b { let m = (a + b) / 2; let (lo, hi, v) = &t[m]; if *hi < cp { a = m + 1; } else if *lo > cp { b = m; } else { return Some(v); } }
    None
}

pub fn check(seed: u64) -> Option<(String, String)> {
    let mut r = Rng(seed.wrapping_mul(0x9E3779B97F4A7C15) | 1);
    let rows = gen_rows(&mut r);
    let scripts = gen_props(&mut r, &SCRIPTS);
    let jts = gen_props(&mut r, &["D", "L", "R", "T", "U"]);
    let hsts = gen_props(&mut r, &["L", "V", "T", "LV"]);
    let dir = std::env::temp_dir().join(format!("verif-c15-{}-{}", std::process::id(), seed));
    let _ = std::fs::remove_dir_all(&dir);
    std::fs::create_dir_all(dir.join("extracted")).unwrap();
    let ud = unicode_data_txt(&rows);
    std::fs::write(dir.join("UnicodeData.txt"), &ud).unwrap();
    std::fs::write(dir.join("Scripts.txt"), props_txt(&scripts)).unwrap();
    std::fs::write(dir.join("extracted/DerivedJoiningType.txt"), props_txt(&jts)).unwrap();
    std::fs::write(dir.join("HangulSyllableType.txt"), props_txt(&hsts)).unwrap();
    let out = dir.join("out.rs");
    let res = std::panic::catch_unwind(|| -> Result<(), String> {
        let mut gen = RustCodeGen::new(&out).map_err(|e| e.to_string())?;
        let mut ucd_gen = UcdFileGen::new(Path::new(&dir));
        let mut gc_gen = GeneralCategoryGen::new();
        for g in GCS.iter() { gc_gen.add(Box::new(UcdTableGen::new(g, &format!("gc_{}", g)))); }
        gc_gen.add(Box::new(ViramaTableGen::new("virama")));
        gc_gen.add(Box::new(UnassignedTableGen::new("unassigned")));
        gc_gen.add(Box::new(BidiClassGen::new("bidi_table")));
        gc_gen.add(Box::new(WidthMappingTableGen::new("width")));
        let mut script_gen: UnicodeGen<ucd_parse::Script> = UnicodeGen::new();
        for s in SCRIPTS.iter() { script_gen.add(Box::new(UcdTableGen::new(s, &format!("script_{}", s)))); }
        let mut djt: UnicodeGen<DerivedJoiningType> = UnicodeGen::new();
        for j in ["D", "L", "R", "T"] { djt.add(Box::new(UcdTableGen::new(j, &format!("jt_{}", j)))); }
        let mut hst: UnicodeGen<HangulSyllableType> = UnicodeGen::new();
        for h in ["L", "V", "T"] { hst.add(Box::new(UcdTableGen::new(h, &format!("hst_{}", h)))); }
        ucd_gen.add(Box::new(gc_gen));
        ucd_gen.add(Box::new(script_gen));
        ucd_gen.add(Box::new(djt));
        ucd_gen.add(Box::new(hst));
        gen.add(Box::new(ucd_gen));
        gen.generate_code().map_err(|e| e.to_string())
    });
    let input = format!("{{\"seed\":{},\"UnicodeData.txt\":{:?},\"Scripts.txt\":{:?}}}", seed, ud, props_txt(&scripts));
    let fail = |d: String| { let _ = std::fs::remove_dir_all(&dir); Some((input.clone(), d)) };
    match res {
        Err(_) => return fail("generator PANICKED on a well-formed input".to_string()),
        Ok(Err(e)) => return fail(format!("generator failed on a well-formed input: {}", e)),
        Ok(Ok(())) => {}
    }
    let src = std::fs::read_to_string(&out).unwrap_or_default();
    let tables = parse_tables(&src);
    let max = rows.last().map(|r| r.hi).unwrap_or(0).max(scripts.last().map(|x| x.1).unwrap_or(0)).max(jts.last().map(|x| x.1).unwrap_or(0)).max(hsts.last().map(|x| x.1).unwrap_or(0)) + 3;
    let row_of = |cp: u32| rows.iter().find(|r| r.lo <= cp && cp <= r.hi);
    let prop_of = |v: &[(u32, u32, &'static str)], cp: u32| v.iter().find(|x| x.0 <= cp && cp <= x.1).map(|x| x.2);
    macro_rules! tab { ($n:expr) => { match tables.get($n) { Some(t) => t, None => return fail(format!("table {} not emitted", $n)) } } }
    for (name, t) in tables.iter() { if !searchable(t) { return fail(format!("table {} is not searchable: {:?}", name, t)); } }
    for cp in 0..=max {
        for g in GCS.iter() {
            let exp = row_of(cp).map(|r| r.gc == *g).unwrap_or(false);
            let got = lookup(tab!(&format!("GC_{}", g.to_uppercase())), cp).is_some();
            if exp != got { return fail(format!("table gc_{}: U+{:04X} in table = {}, input says {}", g, cp, got, exp)); }
        }
        let exp_v = row_of(cp).map(|r| r.ccc == 9).unwrap_or(false);
        if lookup(tab!("VIRAMA"), cp).is_some() != exp_v { return fail(format!("virama table: U+{:04X} in table = {}, input says {}", cp, !exp_v, exp_v)); }
        // unassigned: every code point below the last row that no row covers
        let last = rows.last().unwrap().hi;
        if cp <= last { let exp_u = row_of(cp).is_none(); if lookup(tab!("UNASSIGNED"), cp).is_some() != exp_u { return fail(format!("unassigned table: U+{:04X} in table = {}, input says {}", cp, !exp_u, exp_u)); } }
        let exp_b = row_of(cp).map(|r| r.bidi);
        let got_b = lookup(tab!("BIDI_TABLE"), cp).and_then(|v| if let Val::Class(c) = v { Some(c.as_str()) } else { None });
        if exp_b != got_b { return fail(format!("bidi table: U+{:04X} has class {:?}, input says {:?}", cp, got_b, exp_b)); }
        let exp_w = row_of(cp).and_then(|r| match r.dec { Some((t, m)) if t == "<wide>" || t == "<narrow>" => Some(m), _ => None });
        let got_w = lookup(tab!("WIDTH"), cp).and_then(|v| if let Val::Num(n) = v { Some(*n) } else { None });
        if exp_w != got_w { return fail(format!("width table: U+{:04X} maps to {:?}, input says {:?}", cp, got_w, exp_w)); }
        for s in SCRIPTS.iter() { let exp = prop_of(&scripts, cp) == Some(*s); if lookup(tab!(&format!("SCRIPT_{}", s.to_uppercase())), cp).is_some() != exp { return fail(format!("script table {}: U+{:04X} membership {}, input says {}", s, cp, !exp, exp)); } }
        for j in ["D", "L", "R", "T"] { let exp = prop_of(&jts, cp) == Some(j); if lookup(tab!(&format!("JT_{}", j)), cp).is_some() != exp { return fail(format!("joining type table {}: U+{:04X} membership {}, input says {}", j, cp, !exp, exp)); } }
        for h in ["L", "V", "T"] { let exp = prop_of(&hsts, cp) == Some(h); if lookup(tab!(&format!("HST_{}", h)), cp).is_some() != exp { return fail(format!("hangul table {}: U+{:04X} membership {}, input says {}", h, cp, !exp, exp)); } }
    }
    let _ = std::fs::remove_dir_all(&dir);
    None
}
